(* Whole operation sequences: chunk invariance and equality with the segmentation. *)
From H264 Require Import Base.Prelude Model.AnnexB Spec.AnnexBSpec
     Proofs.AnnexB_sem Proofs.AnnexB_push Proofs.AnnexB_spec.

(* all calls made by a sequence of pushes, and the final state *)
Fixpoint pushes (st : astate) (cs : list (list byte)) : astate * list call :=
  match cs with
  | [] => (st, [])
  | c :: more => let '(st1, k1) := push st c in
                 let '(st2, k2) := pushes st1 more in (st2, k1 ++ k2)
  end.

Lemma pushes_sem cs : forall st a,
  fst (pushes st cs) = fst (arun st (concat cs)) /\
  feed_calls (snd (pushes st cs)) a = feed_evs (snd (arun st (concat cs))) a.
Proof.
  induction cs as [|c more IH]; intros st a; cbn [pushes concat].
  - split; reflexivity.
  - destruct (push_sem st c a) as [Hs Hf]. destruct (push st c) as [st1 k1]. cbn [fst snd] in *.
    rewrite arun_app. destruct (arun st c) as [s1 e1]. cbn [fst snd] in *. subst s1.
    specialize (IH st1 (feed_calls k1 a)). destruct (pushes st1 more) as [st2 k2].
    destruct (arun st1 (concat more)) as [s2 e2]. cbn [fst snd] in *. destruct IH as [IH1 IH2].
    split; [exact IH1|]. rewrite feed_calls_app, feed_evs_app, IH2, Hf. reflexivity.
Qed.

(* whatever the partition, the same stream gives the same state and the same delivered bytes *)
Theorem chunking_irrelevant cs cs' st a : concat cs = concat cs' ->
  fst (pushes st cs) = fst (pushes st cs') /\
  feed_calls (snd (pushes st cs)) a = feed_calls (snd (pushes st cs')) a.
Proof.
  intros H. destruct (pushes_sem cs st a) as [H1 H2]. destruct (pushes_sem cs' st a) as [H3 H4].
  rewrite H1, H2, H3, H4, H. split; reflexivity.
Qed.

(* pushes followed by reset deliver exactly the segmentation of the whole stream *)
Theorem pushes_reset_segment cs :
  let '(st, k) := pushes AStart cs in
  feed_calls (k ++ snd (reset st)) ([], []) = (segment (concat cs), []).
Proof.
  destruct (pushes_sem cs AStart ([], [])) as [H1 H2]. destruct (pushes AStart cs) as [st k]. cbn [fst snd] in *.
  rewrite feed_calls_app, H2. destruct (reset_sem st (feed_evs (snd (arun AStart (concat cs))) ([], []))) as [_ Hr].
  rewrite Hr. rewrite <- feed_evs_app.
  pose proof (stream_then_reset_is_segment (concat cs)) as Hseg. unfold closed_after in Hseg.
  destruct (arun AStart (concat cs)) as [s2 es] eqn:Ea. cbn [fst snd] in *. subst st.
  (* the open accumulator is empty after the reset *)
  assert (Hopen : snd (feed_evs (es ++ areset s2) ([], [])) = []).
  { rewrite feed_evs_app. unfold areset. destruct (in_unit s2) as [bt|] eqn:Hu.
    - cbn [feed_evs fold_left feed_ev snd]. reflexivity.
    - cbn [feed_evs fold_left].
      (* not in a unit: nothing is open *)
      assert (Hg : forall l st a, (in_unit st = None -> snd a = []) ->
                   in_unit (fst (arun st l)) = None -> snd (feed_evs (snd (arun st l)) a) = []).
      { clear. induction l as [|b l IH]; intros st a Ha Hend; cbn [arun] in *.
        - cbn. apply Ha. exact Hend.
        - destruct (astep st b) as [s1 e1] eqn:Es. destruct (arun s1 l) as [s3 e3] eqn:Er. cbn [fst snd] in *.
          rewrite feed_evs_app. specialize (IH s1 (feed_evs e1 a)). rewrite Er in IH. cbn [fst snd] in IH.
          apply IH; [|exact Hend]. intros Hs1.
          destruct st; cbn [astep] in Es.
          + injection Es as <- <-. cbn. apply Ha. reflexivity.
          + injection Es as <- <-. cbn. apply Ha. reflexivity.
          + injection Es as <- <-. cbn. apply Ha. reflexivity.
          + destruct (b =? 0); injection Es as <- <-; discriminate Hs1.
          + destruct (b =? 0); injection Es as <- <-; discriminate Hs1.
          + destruct (b =? 0); [injection Es as <- <-; reflexivity|].
            destruct (b =? 1); injection Es as <- <-; discriminate Hs1. }
      specialize (Hg (concat cs) AStart ([], [])). rewrite Ea in Hg. cbn [fst snd] in Hg.
      apply Hg; [reflexivity|exact Hu]. }
  destruct (feed_evs (es ++ areset s2) ([], [])) as [cl op]. cbn [fst snd] in *. subst. reflexivity.
Qed.

(* calls of arbitrary operation sequences are well shaped *)
Fixpoint all_calls (st : astate) (ops : list aop) : list call :=
  match ops with
  | [] => []
  | o :: r => let '(st', cs) := step st o in cs ++ all_calls st' r
  end.

Theorem all_calls_ok ops : forall st, Forall call_ok (all_calls st ops).
Proof.
  induction ops as [|o r IH]; intros st; cbn [all_calls]; [constructor|].
  destruct (step st o) as [st' cs] eqn:E. apply Forall_app. split; [|apply IH].
  destruct o; cbn [step] in E.
  - pose proof (push_calls_ok st b) as H. rewrite E in H. exact H.
  - pose proof (reset_calls_ok st) as H. rewrite E in H. exact H.
  - injection E as <- <-. constructor.
Qed.

Lemma reset_idle st : in_unit st = None -> reset st = (AStart, []).
Proof. intros H. unfold reset. rewrite H. reflexivity. Qed.

Lemma reset_fresh st ops : all_calls (fst (reset st)) ops = all_calls AStart ops.
Proof. unfold reset. destruct (in_unit st); reflexivity. Qed.

(* number of units ended = number of units of the segmentation *)
Definition ends (cs : list call) : nat := length (filter fin cs).

Lemma feed_calls_ends cs : forall a, length (fst (feed_calls cs a)) = (length (fst a) + ends cs)%nat.
Proof.
  unfold ends, feed_calls. induction cs as [|c cs IH]; intros a; cbn [fold_left filter length]; [lia|].
  rewrite IH. unfold feed_call. destruct (fin c); cbn [fst length].
  - rewrite app_length. cbn [length]. lia.
  - lia.
Qed.

Theorem ends_count cs :
  let '(st, k) := pushes AStart cs in
  ends (k ++ snd (reset st)) = length (segment (concat cs)).
Proof.
  pose proof (pushes_reset_segment cs) as H. destruct (pushes AStart cs) as [st k].
  pose proof (feed_calls_ends (k ++ snd (reset st)) ([], [])) as He. rewrite H in He. cbn [fst length] in He. lia.
Qed.
