(* The ByteReader model refines the scanner semantics: an invariant over fill_buf / consume / read. *)
From H264 Require Import Base.Prelude Spec.Escape Model.RefNal Model.Rbsp Proofs.C15_proofs Proofs.RbspSem Proofs.RbspScan.
Local Open Scope N_scope.

Definition raw_of (r : br) : list byte := rdr_remaining (inner r).

(* what the reader will still deliver: the examined bytes of the current chunk, then the scanner's
   output over the unexamined input; and whether that input is clean *)
Definition meaning (r : br) : list byte * bool :=
  let '(o, ok) := uout (st r) (skipn (idx r) (raw_of r)) in (firstn (idx r) (raw_of r) ++ o, ok).

Definition binv (r : br) : Prop :=
  wf (inner r) /\ (idx r <= length (cur (inner r)))%nat /\ 1 <= max_fill r /\
  match st r with Skip n => idx r = 0%nat /\ 0 < n | _ => True end.

Lemma let_pair (p : list byte * bool) : (let '(o, ok) := p in (@nil byte ++ o, ok)) = p.
Proof. destruct p; reflexivity. Qed.

Lemma uout_skip_k k : forall n raw, (k <= length raw)%nat -> N.of_nat k <= n -> 0 < n ->
  uout (Skip n) raw = uout (if n - N.of_nat k =? 0 then Start else Skip (n - N.of_nat k)) (skipn k raw).
Proof.
  induction k as [|k IH]; intros n raw Hl Hk Hn.
  - cbn [skipn N.of_nat]. rewrite N.sub_0_r. destruct (N.eqb_spec n 0); [lia|reflexivity].
  - destruct raw as [|b r]; [cbn in Hl; lia|]. cbn [uout skipn].
    destruct (N.eqb_spec (n - 1) 0) as [E|E].
    + assert (k = 0%nat) by lia. subst k. cbn [skipn]. replace (n - N.of_nat 1) with 0 by lia. reflexivity.
    + rewrite IH; [|cbn [length] in Hl; lia|lia|lia].
      replace (n - 1 - N.of_nat k) with (n - N.of_nat (S k)) by lia. reflexivity.
Qed.

Lemma firstn_raw_cur r i : (i <= length (cur (inner r)))%nat -> firstn i (raw_of r) = firstn i (cur (inner r)).
Proof. intros H. unfold raw_of, rdr_remaining. rewrite firstn_app. replace (i - length (cur (inner r)))%nat with 0%nat by lia. rewrite firstn_O, app_nil_r. reflexivity. Qed.

(* measure for the fill loop: strictly decreases on every iteration that leaves idx = 0 *)
Definition mu (r : br) : nat := (2 * length (raw_of r) + match st r with Three => 0 | _ => 1 end)%nat.

Inductive fill_outcome (r : br) : out iokind (bool * br) -> Prop :=
| fo_progress r' : binv r' -> meaning r' = meaning r -> complete (inner r') = complete (inner r) ->
    ((0 < idx r')%nat \/ (mu r' < mu r)%nat) -> fill_outcome r (OK (true, r'))
| fo_eof : raw_of r = [] -> complete (inner r) = true -> fill_outcome r (OK (false, r))
| fo_block : raw_of r = [] -> complete (inner r) = false -> try_fill_state_after_err r = r -> fill_outcome r (ERR WouldBlock)
| fo_invalid : snd (meaning r) = false ->
    (let r' := try_fill_state_after_err r in
     binv r' /\ meaning r' = meaning r /\ uout (st r') (skipn (idx r') (raw_of r')) = ([], false) /\ raw_of r' = raw_of r /\
     inner r' = inner r) ->
    fill_outcome r (ERR InvalidData).

Lemma try_fill_spec r : binv r -> idx r = 0%nat -> fill_outcome r (try_fill_buf_slow r).
Proof.
  intros (Hwf & Hidx & Hmf & Hst) Hi0. unfold try_fill_buf_slow. rewrite Hi0. cbn [Nat.eqb negb].
  pose proof (fill_buf_spec (inner r) Hwf) as Hfb.
  destruct (rdr_fill_buf (inner r)) as [chunk|e| |] eqn:Efb; try contradiction.
  2:{ destruct Hfb as (-> & Hraw & Hc). cbn [obind]. apply fo_block; try assumption. unfold try_fill_state_after_err. rewrite Efb. reflexivity. }
  destruct Hfb as [Hchunk Hempty]. cbn [obind]. subst chunk.
  destruct (cur (inner r)) as [|c0 ctl] eqn:Ecur.
  { destruct (Hempty eq_refl) as [Hraw Hc]. apply fo_eof; assumption. }
  rewrite <- Ecur in *. clear Hempty.
  set (len := length (cur (inner r))).
  set (limit := N.to_nat (N.min (N.of_nat len) (max_fill r))).
  assert (Hlimit : (1 <= limit <= len)%nat).
  { unfold limit, len. rewrite Ecur. cbn [length]. lia. }
  assert (Hraw : raw_of r = firstn limit (cur (inner r)) ++ (skipn limit (cur (inner r)) ++ concat (rest (inner r)))).
  { unfold raw_of, rdr_remaining. rewrite app_assoc, firstn_skipn. reflexivity. }
  assert (Hm0 : meaning r = uout (st r) (raw_of r)).
  { unfold meaning. rewrite Hi0. cbn [skipn firstn app]. destruct (uout (st r) (raw_of r)); reflexivity. }
  assert (Hdata : data_state (st r) -> fill_outcome r
      match scan len (st r) 0 (firstn limit (cur (inner r))) with
      | ScanDone s i => OK (true, mk_br (inner r) s i (max_fill r))
      | ScanConsume s k => obind (rdr_consume (inner r) k) (fun inner' => OK (true, mk_br inner' s 0 (max_fill r)))
      | ScanErr _ _ => ERR InvalidData
      end).
  { intros Hd.
    pose proof (scan_sem len (firstn limit (cur (inner r))) (st r) 0%nat (skipn limit (cur (inner r)) ++ concat (rest (inner r))) Hd) as Hs.
    assert (Hafter : try_fill_state_after_err r =
       match scan len (st r) 0 (firstn limit (cur (inner r))) with ScanErr s i => mk_br (inner r) s i (max_fill r) | _ => r end).
    { unfold try_fill_state_after_err. rewrite Efb, Hi0. reflexivity. }
    rewrite <- Hraw in Hs.
    assert (Hll : length (firstn limit (cur (inner r))) = limit) by (rewrite firstn_length; fold len; lia).
    destruct (scan len (st r) 0 (firstn limit (cur (inner r)))) as [s' i'|s' k|s' i'].
    - destruct Hs as (passed & rest' & Hl & Hi' & Hu & Hend). cbn [Nat.add] in Hi'.
      assert (Hrw : raw_of r = passed ++ rest' ++ (skipn limit (cur (inner r)) ++ concat (rest (inner r)))).
      { rewrite Hraw, Hl, <- app_assoc. reflexivity. }
      assert (Hlp : (length passed + length rest' = limit)%nat) by (rewrite <- Hll, Hl, app_length; reflexivity).
      apply fo_progress.
      + unfold binv; cbn [inner idx max_fill st]; repeat match goal with |- _ /\ _ => apply conj end; try assumption.
        * fold len. lia.
        * destruct Hend as [[_ Hd']|[-> _]]; [destruct s'; try exact I; destruct Hd'|exact I].
      + rewrite Hm0. unfold meaning, raw_of in *. cbn [inner idx st]. rewrite Hrw, Hi'.
        rewrite firstn_app, firstn_all, Nat.sub_diag, firstn_O, app_nil_r.
        rewrite skipn_app, skipn_all, Nat.sub_diag. cbn [skipn app].
        rewrite <- Hrw, Hu. reflexivity.
      + reflexivity.
      + cbn [idx]. destruct passed as [|p0 pt]; [right|left; rewrite Hi'; cbn [length]; lia].
        cbn [app] in Hl. destruct Hend as [[Hr _]|[-> _]].
        * subst rest'. rewrite Hr in Hlp. cbn [length] in Hlp. lia.
        * unfold mu, raw_of. cbn [inner st]. destruct (st r); try lia; destruct Hd.
    - destruct Hs.
    - destruct Hs as (passed & rest' & Hl & Hne & Hi' & Hu & Hu' & Hd'). cbn [Nat.add] in Hi'.
      assert (Hrw : raw_of r = passed ++ rest' ++ (skipn limit (cur (inner r)) ++ concat (rest (inner r)))).
      { rewrite Hraw, Hl, <- app_assoc. reflexivity. }
      assert (Hlp : (length passed + length rest' = limit)%nat) by (rewrite <- Hll, Hl, app_length; reflexivity).
      assert (Hsk : skipn i' (raw_of r) = rest' ++ (skipn limit (cur (inner r)) ++ concat (rest (inner r)))).
      { rewrite Hrw, Hi', skipn_app, skipn_all, Nat.sub_diag. reflexivity. }
      assert (Hfi : firstn i' (raw_of r) = passed).
      { rewrite Hrw, Hi', firstn_app, firstn_all, Nat.sub_diag, firstn_O, app_nil_r. reflexivity. }
      apply fo_invalid.
      + rewrite Hm0, Hu. reflexivity.
      + rewrite Hafter. cbv zeta. unfold meaning at 1. unfold raw_of at 1 2 3 4 5. cbn [inner idx st max_fill].
        fold (raw_of r). rewrite Hsk, Hfi, <- Hsk. rewrite Hsk, Hu'.
        repeat match goal with |- _ /\ _ => apply conj end; try reflexivity.
        * unfold binv; cbn [inner idx max_fill st]; repeat match goal with |- _ /\ _ => apply conj end; try assumption.
          -- fold len. lia.
          -- destruct s'; try exact I; destruct Hd'.
        * rewrite app_nil_r, Hm0, Hu. reflexivity. }
  destruct (st r) as [| | |n| |] eqn:Est; try (apply Hdata; exact I); clear Hdata.
  - (* Skip n *)
    destruct Hst as [_ Hn].
    assert (Hf : firstn limit (cur (inner r)) = c0 :: firstn (limit - 1) ctl).
    { rewrite Ecur. destruct limit as [|l']; [lia|]. cbn [firstn Nat.sub]. rewrite ?Nat.sub_0_r. reflexivity. }
    rewrite Hf. cbn [scan].
    set (k := Nat.min len (N.to_nat n)).
    assert (Hk : (1 <= k <= len)%nat) by (unfold k; lia).
    destruct (consume_spec (inner r) k Hwf) as (inner' & Hc & Hwf' & Hcomp & Hrem); [fold len; lia|].
    rewrite Hc. cbn [obind].
    assert (Hsk : skipn k (raw_of r) = rdr_remaining inner').
    { unfold raw_of. rewrite Hrem. rewrite skipn_app, skipn_all2 by (rewrite firstn_length; fold len; lia).
      rewrite firstn_length. fold len. replace (k - Nat.min k len)%nat with 0%nat by lia. reflexivity. }
    assert (Hlen : length (raw_of r) = (k + length (rdr_remaining inner'))%nat).
    { unfold raw_of. rewrite Hrem, app_length, firstn_length. fold len. lia. }
    apply fo_progress.
    + unfold binv; cbn [inner idx max_fill st]; repeat match goal with |- _ /\ _ => apply conj end; try assumption; try lia.
      destruct (N.eqb_spec (n - N.of_nat k) 0); [exact I|]. split; [reflexivity|lia].
    + rewrite Hm0. unfold meaning. cbn [idx st inner]. unfold raw_of at 1 2. cbn [inner skipn firstn app].
      rewrite (uout_skip_k k n (raw_of r)); [|lia|unfold k; lia|exact Hn]. rewrite Hsk.
      apply (let_pair (uout _ _)).
    + exact Hcomp.
    + right. unfold mu. cbn [st]. unfold raw_of at 1. cbn [inner]. rewrite Hlen.
      destruct (if n - N.of_nat k =? 0 then Start else Skip (n - N.of_nat k)); lia.
  - (* Three *)
    assert (Hf : firstn limit (cur (inner r)) = c0 :: firstn (limit - 1) ctl).
    { rewrite Ecur. destruct limit as [|l']; [lia|]. cbn [firstn Nat.sub]. rewrite ?Nat.sub_0_r. reflexivity. }
    rewrite Hf. cbn [scan].
    destruct (consume_spec (inner r) 1 Hwf) as (inner' & Hc & Hwf' & Hcomp & Hrem); [fold len; lia|].
    rewrite Hc. cbn [obind].
    assert (Hr1 : raw_of r = c0 :: rdr_remaining inner').
    { unfold raw_of. rewrite Hrem, Ecur. reflexivity. }
    apply fo_progress.
    + unfold binv; cbn [inner idx max_fill st]; repeat match goal with |- _ /\ _ => apply conj end; try assumption; try lia.
    + rewrite Hm0. unfold meaning. cbn [idx st inner]. unfold raw_of at 1 2. cbn [inner skipn firstn app].
      rewrite Hr1. cbn [uout]. apply (let_pair (uout _ _)).
    + exact Hcomp.
    + right. unfold mu. cbn [st]. unfold raw_of at 1. cbn [inner]. rewrite Hr1. cbn [length]. lia.
Qed.

(* ---- the fill loop ---- *)
Inductive loop_outcome (r : br) : out iokind br * br -> Prop :=
| lo_ready r' : binv r' -> meaning r' = meaning r -> complete (inner r') = complete (inner r) ->
    ((0 < idx r')%nat \/ (idx r' = 0%nat /\ raw_of r' = [] /\ complete (inner r') = true)) -> loop_outcome r (OK r', r')
| lo_block r' : binv r' -> meaning r' = meaning r -> complete (inner r') = complete (inner r) -> complete (inner r') = false -> raw_of r' = [] -> idx r' = 0%nat ->
    loop_outcome r (ERR WouldBlock, r')
| lo_invalid r' : binv r' -> meaning r' = meaning r -> snd (meaning r) = false ->
    uout (st r') (skipn (idx r') (raw_of r')) = ([], false) -> complete (inner r') = complete (inner r) ->
    loop_outcome r (ERR InvalidData, r').

Lemma fill_loop_spec fuel : forall r, binv r -> (mu r + 2 <= fuel)%nat -> loop_outcome r (br_fill_loop fuel r).
Proof.
  induction fuel as [|f IH]; intros r Hb Hf; [lia|]. cbn [br_fill_loop].
  destruct (Nat.eqb_spec (idx r) 0) as [Hi|Hi]; cbn [negb].
  2:{ apply lo_ready; try assumption; try reflexivity. left. lia. }
  pose proof (try_fill_spec r Hb Hi) as Ho.
  destruct Ho as [r' Hb' Hm Hc Hprog|Hraw Hc|Hraw Hc Hsame|Hsnd Hafter].
  - destruct Hprog as [Hpos|Hmu].
    + destruct f as [|f']; [lia|]. cbn [br_fill_loop].
      destruct (Nat.eqb_spec (idx r') 0) as [E|E]; [lia|]. cbn [negb].
      apply lo_ready; try assumption. left. exact Hpos.
    + assert (Hl : loop_outcome r' (br_fill_loop f r')) by (apply IH; [assumption|lia]).
      destruct Hl as [r2 Hb2 Hm2 Hc2 Hp2|r2 Hb2 Hm2 Hc2 Hcf2 Hr2 Hi2|r2 Hb2 Hm2 Hs2 Hu2 Hc2].
      * apply lo_ready; try assumption; congruence.
      * apply lo_block; try assumption; congruence.
      * apply lo_invalid; try assumption; congruence.
  - apply lo_ready; try assumption; try reflexivity. right. auto.
  - rewrite Hsame. apply lo_block; try assumption; reflexivity.
  - cbv zeta in Hafter. destruct Hafter as (Hb' & Hm' & Hu' & Hraw' & Hin').
    apply lo_invalid; try assumption. rewrite Hin'. reflexivity.
Qed.

Lemma mu_fuel r : (mu r + 2 <= br_fuel r)%nat.
Proof. unfold mu, br_fuel, raw_of. destruct (st r); lia. Qed.

(* ---- fill_buf ---- *)
Inductive fill_buf_outcome (r : br) : out iokind (list byte) * br -> Prop :=
| fb_data b r' : binv r' -> meaning r' = meaning r -> complete (inner r') = complete (inner r) ->
    b = firstn (idx r') (cur (inner r')) -> length b = idx r' -> b <> [] -> fill_buf_outcome r (OK b, r')
| fb_eof r' : binv r' -> meaning r' = meaning r -> complete (inner r') = complete (inner r) -> complete (inner r') = true -> raw_of r' = [] -> idx r' = 0%nat ->
    fill_buf_outcome r (OK [], r')
| fb_block r' : binv r' -> meaning r' = meaning r -> complete (inner r') = complete (inner r) -> complete (inner r') = false -> raw_of r' = [] -> idx r' = 0%nat ->
    fill_buf_outcome r (ERR WouldBlock, r')
| fb_invalid r' : binv r' -> meaning r' = meaning r -> snd (meaning r) = false ->
    uout (st r') (skipn (idx r') (raw_of r')) = ([], false) -> complete (inner r') = complete (inner r) ->
    fill_buf_outcome r (ERR InvalidData, r').

Lemma br_fill_buf_spec r : binv r -> fill_buf_outcome r (br_fill_buf r).
Proof.
  intros Hb. unfold br_fill_buf.
  pose proof (fill_loop_spec (br_fuel r) r Hb (mu_fuel r)) as Hl.
  destruct Hl as [r2 Hb2 Hm2 Hc2 Hp2|r2 Hb2 Hm2 Hc2 Hcf2 Hr2 Hi2|r2 Hb2 Hm2 Hs2 Hu2 Hc2].
  - destruct Hb2 as (Hwf & Hidx & Hmf & Hst).
    pose proof (fill_buf_spec (inner r2) Hwf) as Hfb.
    destruct Hp2 as [Hpos|(Hi0 & Hraw & Hcomp)].
    + unfold rdr_fill_buf, at_block. destruct (cur (inner r2)) as [|c0 ct] eqn:Ecur; [cbn [length] in Hidx; lia|].
      destruct (Nat.ltb_spec (length (c0 :: ct)) (idx r2)) as [H|H]; [lia|].
      apply fb_data; try assumption.
      * unfold binv. rewrite Ecur. repeat match goal with |- _ /\ _ => apply conj end; assumption.
      * rewrite Ecur. reflexivity.
      * rewrite firstn_length. lia.
      * destruct (idx r2); [lia|]. discriminate.
    + assert (Hcur : cur (inner r2) = []) by (apply rem_nil_wf; assumption).
      unfold rdr_fill_buf, at_block. rewrite Hcur, Hcomp. cbn [negb length]. rewrite Hi0. cbn [Nat.ltb Nat.leb firstn].
      apply fb_eof; try assumption. unfold binv. repeat match goal with |- _ /\ _ => apply conj end; assumption.
  - apply fb_block; assumption.
  - apply fb_invalid; assumption.
Qed.

(* ---- consume ---- *)
Lemma consume_cur_len r k r' : rdr_consume r k = OK r' -> (k <= length (cur r))%nat -> (length (cur r) - k <= length (cur r'))%nat.
Proof.
  unfold rdr_consume. intros H Hk. destruct (Nat.ltb_spec (length (cur r)) k); [lia|]. cbn [cur] in H.
  assert (Hs : length (skipn k (cur r)) = (length (cur r) - k)%nat) by apply skipn_length.
  destruct (skipn k (cur r)) as [|x xs] eqn:E; inversion H; subst r'.
  - cbn [length] in Hs. lia.
  - cbn [cur]. lia.
Qed.

Lemma firstn_app_le {A} k (a b : list A) : (length a <= k)%nat -> firstn k (a ++ b) = a ++ firstn (k - length a) b.
Proof. intros H. rewrite firstn_app, firstn_all2 by exact H. reflexivity. Qed.
Lemma skipn_app_le {A} k (a b : list A) : (length a <= k)%nat -> skipn k (a ++ b) = skipn (k - length a) b.
Proof. intros H. rewrite skipn_app, skipn_all2 by exact H. reflexivity. Qed.

Lemma br_consume_spec r amt : binv r -> (amt <= idx r)%nat ->
  exists r', br_consume r amt = OK r' /\ binv r' /\ complete (inner r') = complete (inner r) /\
    idx r' = (idx r - amt)%nat /\
    fst (meaning r) = firstn amt (cur (inner r)) ++ fst (meaning r') /\ snd (meaning r') = snd (meaning r) /\
    firstn (idx r) (cur (inner r)) = firstn amt (cur (inner r)) ++ firstn (idx r') (cur (inner r')).
Proof.
  intros (Hwf & Hidx & Hmf & Hst) Ha. unfold br_consume.
  destruct (Nat.ltb_spec (idx r) amt); [lia|].
  destruct (consume_spec (inner r) amt Hwf) as (inner' & Hc & Hwf' & Hcomp & Hrem); [lia|].
  rewrite Hc. cbn [obind]. eexists. split; [reflexivity|].
  pose proof (consume_cur_len _ _ _ Hc ltac:(lia)) as Hlen.
  assert (Hfl : length (firstn amt (cur (inner r))) = amt) by (rewrite firstn_length; lia).
  assert (Hcur' : firstn (idx r - amt) (cur inner') = firstn (idx r - amt) (skipn amt (cur (inner r)))).
  { unfold rdr_consume in Hc. destruct (Nat.ltb_spec (length (cur (inner r))) amt); [lia|]. cbn [cur] in Hc.
    destruct (skipn amt (cur (inner r))) as [|x xs] eqn:E; inversion Hc; subst inner'.
    - assert (Hs : length (skipn amt (cur (inner r))) = (length (cur (inner r)) - amt)%nat) by apply skipn_length.
      rewrite E in Hs. cbn [length] in Hs. replace (idx r - amt)%nat with 0%nat by lia. reflexivity.
    - reflexivity. }
  split; [|split; [exact Hcomp|split; [reflexivity|]]].
  - unfold binv. cbn [inner idx st max_fill]. repeat match goal with |- _ /\ _ => apply conj end; try assumption; try lia.
    destruct (st r); try exact I. destruct Hst as [Hz Hn]. split; [lia|exact Hn].
  - unfold meaning, raw_of. cbn [inner idx st]. rewrite Hrem.
    rewrite firstn_app_le, skipn_app_le by lia. rewrite Hfl.
    destruct (uout (st r) (skipn (idx r - amt) (rdr_remaining inner'))) as [o ok]. cbn [fst snd].
    split; [rewrite <- app_assoc; reflexivity|]. split; [reflexivity|].
    rewrite Hcur'. rewrite <- (firstn_skipn amt (cur (inner r))) at 1.
    rewrite firstn_app_le by lia. rewrite Hfl. reflexivity.
Qed.
