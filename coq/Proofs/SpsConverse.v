(* C04, converse direction: every bit string the SPS parser model accepts IS the encoding (per the syntax
   table of Spec/SyntaxSps.v) of the structure it returns - nothing is skipped, re-read or read under another
   descriptor; the coded scaling-list deltas are the only information the structure does not keep. *)
From H264 Require Import Base.Prelude Base.Bits Model.BitReader Model.Parser Model.Sps Spec.Golomb Spec.SyntaxSps
     Proofs.BitsLemmas Proofs.C07_proofs Proofs.Wp Proofs.SpsInv Proofs.Parses Proofs.SpsRoundtrip.
Local Open Scope N_scope.

Lemma codenum_of_se_of_codenum k : codenum_of_se (se_of_codenum k) = k.
Proof.
  unfold codenum_of_se, se_of_codenum. destruct (N.odd k) eqn:Eo.
  - apply N.odd_spec in Eo. destruct Eo as [m ->].
    replace ((2 * m + 1 + 1) / 2) with (m + 1) by (apply (N.div_unique _ 2 (m + 1) 0); lia).
    destruct (Z.ltb_spec 0 (Z.of_N (m + 1))); lia.
  - assert (He : N.even k = true) by (rewrite <- N.negb_odd, Eo; reflexivity).
    apply N.even_spec in He. destruct He as [m ->].
    replace (2 * m / 2) with m by (apply (N.div_unique _ 2 m 0); lia).
    destruct (Z.ltb_spec 0 (- Z.of_N m)); lia.
Qed.

(* primitives with the exact encoding of what they consumed *)
Lemma wx_bool {E} (f : biterr -> E) nm s (Phi : bool -> src -> Prop) :
  (forall b s', bits s = flag b ++ bits s' -> tail s' = tail s -> Phi b s') -> wp (liftE f (read_bool nm) s) Phi.
Proof. intros H. apply wp_read_bool. intros b s' Hb Ht. apply H; [exact Hb|exact Ht]. Qed.

Lemma wx_u {E} (f : biterr -> E) w n nm s (Phi : N -> src -> Prop) :
  (forall v s', bits s = u (N.to_nat n) v ++ bits s' -> tail s' = tail s -> Phi v s') -> wp (liftE f (read_u w n nm) s) Phi.
Proof. intros H. apply wp_read_u. intros v s' _ _ Hb Ht. apply H; assumption. Qed.

Lemma wx_ue {E} (f : biterr -> E) nm s (Phi : N -> src -> Prop) :
  (forall v s', bits s = ue v ++ bits s' -> tail s' = tail s -> Phi v s') -> wp (liftE f (read_ue nm) s) Phi.
Proof. intros H. apply wp_read_ue. intros v s' _ Hb Ht. apply H; assumption. Qed.

Lemma wx_se {E} (f : biterr -> E) nm s (Phi : Z -> src -> Prop) :
  (forall z s', bits s = se z ++ bits s' -> tail s' = tail s -> Phi z s') -> wp (liftE f (read_se nm) s) Phi.
Proof.
  intros H. apply wp_read_se. intros z s' _ (k & Hk & Hz & Hb) Ht. apply H; [|exact Ht].
  subst z. unfold se, enc_se. rewrite codenum_of_se_of_codenum. exact Hb.
Qed.

(* chain the collected equations: bits s0 = e1 ++ bits s1, bits s1 = e2 ++ bits s2, ... *)
Ltac chain :=
  repeat match goal with
  | H : bits ?a = _ ++ bits ?b, G : bits ?b = _ ++ bits _ |- _ => rewrite G in H; clear G
  end;
  repeat match goal with
  | H : tail ?b = tail ?a, G : tail ?c = tail ?b |- _ => rewrite H in G; clear H
  end.

Ltac wx_prim := first [ apply wx_bool | apply wx_u | apply wx_ue | apply wx_se ].
Ltac wx_step := apply wp_bind; wx_prim; intros ? ? ? ?; cbv beta.

(* close a goal `bits s = ENC ++ bits s'` from chained equations *)
Ltac wx_done Hk :=
  apply Hk; [chain; match goal with H : bits ?a = _ |- bits ?a = _ => rewrite H end; rewrite <- ?app_assoc; cbn [app]; reflexivity
            |chain; congruence].

(* ---- scaling lists ---- *)
Lemma wx_fill n : forall j0 last next ud acc s (Phi : bool * list N -> src -> Prop),
  (forall r ds s', bits s = concat (map se ds) ++ bits s' -> tail s' = tail s -> Phi r s') ->
  wp (fill_scaling_list n j0 last next ud acc s) Phi.
Proof.
  induction n as [|n IH]; intros j0 last next ud acc s Phi Hk; cbn [fill_scaling_list].
  - apply wp_ret. apply (Hk _ []); reflexivity.
  - destruct (next =? 0); [apply IH; exact Hk|].
    apply wp_bind. apply wx_se. intros d s1 Hb1 Ht1. cbv beta.
    destruct ((d <? -128)%Z || (127 <? d)%Z); [apply wp_fail|].
    apply IH. intros r ds s' Hb Ht. apply (Hk r (d :: ds)).
    + cbn [map concat]. rewrite Hb1, Hb, <- app_assoc. reflexivity.
    + congruence.
Qed.

Lemma wx_scaling_list size s (Phi : scaling_list -> src -> Prop) :
  (forall sl p s', bits s = enc_scaling_list p ++ bits s' -> tail s' = tail s -> Phi sl s') ->
  wp (bindE (liftE SmReader (read_bool "seq_scaling_list_present_flag")) (fun f => read_scaling_list size f) s) Phi.
Proof.
  intros Hk. apply wp_bind. apply wx_bool. intros f s1 Hb1 Ht1. cbv beta. unfold read_scaling_list.
  destruct f; cbn [negb].
  - apply wp_bind. apply wx_fill. intros r ds s2 Hb2 Ht2. cbv beta. apply wp_ret.
    apply (Hk _ (Some ds)); [cbn [enc_scaling_list]; rewrite Hb1, Hb2, <- app_assoc; reflexivity|congruence].
  - apply wp_ret. apply (Hk _ None); [cbn [enc_scaling_list]; exact Hb1|exact Ht1].
Qed.

Lemma wx_scaling_lists n : forall i l4 l8 s (Phi : seq_scaling_matrix -> src -> Prop),
  (forall m ls s', length ls = n -> bits s = concat (map enc_scaling_list ls) ++ bits s' -> tail s' = tail s -> Phi m s') ->
  wp (read_scaling_lists n i l4 l8 s) Phi.
Proof.
  induction n as [|n IH]; intros i l4 l8 s Phi Hk; cbn [read_scaling_lists].
  - apply wp_ret. apply (Hk _ []); reflexivity.
  - assert (Hstep : forall size (k : scaling_list -> PE smerr seq_scaling_matrix),
        (forall sl s1 p, bits s = enc_scaling_list p ++ bits s1 -> tail s1 = tail s -> wp (k sl s1) Phi) ->
        wp (bindE (liftE SmReader (read_bool "seq_scaling_list_present_flag")) (fun f => bindE (read_scaling_list size f) k) s) Phi).
    { intros size k Hkk.
      pose proof (wx_scaling_list size s (fun sl s1 => wp (k sl s1) Phi)) as Hw.
      assert (Hpre : forall sl p s', bits s = enc_scaling_list p ++ bits s' -> tail s' = tail s -> wp (k sl s') Phi)
        by (intros sl p s' Hb Ht; apply (Hkk sl s' p Hb Ht)).
      specialize (Hw Hpre). unfold bindE in *.
      destruct (liftE SmReader (read_bool "seq_scaling_list_present_flag") s) as [[f s1]| | |]; try exact Hw.
      destruct (read_scaling_list size f s1) as [[sl s2]| | |]; exact Hw. }
    destruct (Nat.ltb i 6); apply Hstep; intros sl s1 p Hb1 Ht1; apply IH; intros m ls s' Hlen Hb Ht;
      (apply (Hk m (p :: ls)); [cbn [length]; lia|cbn [map concat]; rewrite Hb1, Hb, <- app_assoc; reflexivity|congruence]).
Qed.

(* ---- chroma info ---- *)
Lemma idc_roundtrip idc : idc_of_chroma_format (chroma_format_of_idc idc) = idc.
Proof. unfold chroma_format_of_idc. destruct idc as [|[[|[]|]|[]|]]; reflexivity. Qed.

Definition enc_chroma (ci : chroma_info) (lists : option (list (option (list Z)))) : list bool :=
  let idc := idc_of_chroma_format (chroma_format_ ci) in
  ue idc ++ (if idc =? 3 then flag (separate_colour_plane_flag ci) else []) ++
  ue (bit_depth_luma_minus8 ci) ++ ue (bit_depth_chroma_minus8 ci) ++ flag (qpprime_y_zero_transform_bypass_flag ci) ++
  match lists with Some ls => flag true ++ concat (map enc_scaling_list ls) | None => flag false end.

Lemma wx_bit_depth s (Phi : N -> src -> Prop) :
  (forall v s', bits s = ue v ++ bits s' -> tail s' = tail s -> Phi v s') -> wp (read_bit_depth_minus8 s) Phi.
Proof.
  intros Hk. unfold read_bit_depth_minus8. wx_step. destruct (6 <? v); [apply wp_fail|]. apply wp_ret. apply Hk; assumption.
Qed.

Lemma wx_chroma_info p s (Phi : chroma_info -> src -> Prop) :
  (forall ci lists s',
     bits s = (if has_chroma_info p then enc_chroma ci lists else []) ++ bits s' -> tail s' = tail s ->
     (has_chroma_info p = false -> ci = chroma_info_default) -> Phi ci s') ->
  wp (chroma_info_read p s) Phi.
Proof.
  intros Hk. unfold chroma_info_read. destruct (has_chroma_info p).
  2:{ apply wp_ret. apply (Hk _ None); reflexivity. }
  apply wp_bind. apply wx_ue. intros idc s0 Hb0 Ht0. cbv beta.
  apply wp_bind.
  assert (Hsep : wp ((if idc =? 3 then liftE RbspReaderError (read_bool "separate_colour_plane_flag") else retE false) s0)
                    (fun sep s1 => bits s0 = (if idc =? 3 then flag sep else []) ++ bits s1 /\ tail s1 = tail s0)).
  { destruct (idc =? 3); [apply wx_bool; intros; split; assumption|apply wp_ret; split; reflexivity]. }
  eapply wp_mono; [exact Hsep|]. intros sep s1 [Hb1 Ht1]. cbv beta.
  apply wp_bind. apply wx_bit_depth. intros bl s2 Hb2 Ht2. cbv beta.
  apply wp_bind. apply wx_bit_depth. intros bc s3 Hb3 Ht3. cbv beta.
  apply wp_bind. apply wx_bool. intros qp s4 Hb4 Ht4. cbv beta.
  apply wp_bind. unfold read_scaling_matrix.
  apply wp_bind. apply wx_bool. intros f s5 Hb5 Ht5. cbv beta.
  destruct f.
  - apply wp_bind. apply wp_mapE. unfold seq_scaling_matrix_read. apply wx_scaling_lists.
    intros m ls s6 Hlen Hb6 Ht6. cbv beta. apply wp_ret. apply wp_ret.
    apply (Hk _ (Some ls)); [|congruence|discriminate].
    unfold enc_chroma. cbn [chroma_format_ separate_colour_plane_flag bit_depth_luma_minus8 bit_depth_chroma_minus8 qpprime_y_zero_transform_bypass_flag].
    rewrite idc_roundtrip, Hb0, Hb1, Hb2, Hb3, Hb4, Hb5, Hb6. rewrite <- ?app_assoc. reflexivity.
  - apply wp_ret. apply wp_ret.
    apply (Hk _ None); [|congruence|discriminate].
    unfold enc_chroma. cbn [chroma_format_ separate_colour_plane_flag bit_depth_luma_minus8 bit_depth_chroma_minus8 qpprime_y_zero_transform_bypass_flag].
    rewrite idc_roundtrip, Hb0, Hb1, Hb2, Hb3, Hb4, Hb5. rewrite <- ?app_assoc. reflexivity.
Qed.

Ltac wx_steps :=
  repeat (apply wp_bind; wx_prim;
          let v := fresh "v" in let s := fresh "s" in let Hb := fresh "Hb" in let Ht := fresh "Ht" in
          intros v s Hb Ht; cbv beta).
Ltac unf :=
  cbn [enc_opt enc_aspect
       left_offset right_offset top_offset bottom_offset video_format video_full_range_flag colour_description_
       colour_primaries transfer_characteristics matrix_coefficients
       chroma_sample_loc_type_top_field chroma_sample_loc_type_bottom_field num_units_in_tick time_scale fixed_frame_rate_flag
       bit_rate_value_minus1 cpb_size_value_minus1 cbr_flag
       bit_rate_scale cpb_size_scale cpb_specs initial_cpb_removal_delay_length_minus1 cpb_removal_delay_length_minus1
       dpb_output_delay_length_minus1 time_offset_length
       motion_vectors_over_pic_boundaries_flag max_bytes_per_pic_denom max_bits_per_mb_denom log2_max_mv_length_horizontal
       log2_max_mv_length_vertical max_num_reorder_frames max_dec_frame_buffering].
Ltac bits_chain :=
  repeat match goal with H : bits ?a = _ |- context [bits ?a] => rewrite H; clear H end;
  unf; rewrite <- ?app_assoc; cbn [app]; try reflexivity.
Ltac tail_chain := repeat match goal with H : tail ?a = tail _ |- context [tail ?a] => rewrite H; clear H end; try reflexivity.
Ltac wx_close Hk := apply wp_ret; apply Hk; [bits_chain|tail_chain].

(* ---- picture order count ---- *)
Lemma wx_rep_se nm n : forall s (Phi : list Z -> src -> Prop),
  (forall l s', length l = n -> bits s = concat (map se l) ++ bits s' -> tail s' = tail s -> Phi l s') ->
  wp (repE n (liftE PocReader (read_se nm)) s) Phi.
Proof.
  induction n as [|n IH]; intros s Phi Hk; cbn [repE].
  - apply wp_ret. apply (Hk []); reflexivity.
  - apply wp_bind. apply wx_se. intros z s1 Hb1 Ht1. cbv beta. apply wp_bind. apply IH.
    intros l s2 Hlen Hb2 Ht2. cbv beta. apply wp_ret.
    apply (Hk (z :: l)); [cbn [length]; lia|cbn [map concat]; rewrite Hb1, Hb2, <- app_assoc; reflexivity|congruence].
Qed.

Lemma wx_poc s (Phi : pic_order_cnt -> src -> Prop) :
  (forall v s', bits s = enc_poc v ++ bits s' -> tail s' = tail s -> Phi v s') -> wp (pic_order_cnt_read s) Phi.
Proof.
  intros Hk. unfold pic_order_cnt_read.
  apply wp_bind. apply wx_ue. intros t s0 Hb0 Ht0. cbv beta.
  destruct t as [|[[|[]|]|[]|]]; try apply wp_fail.
  - (* 0 *) apply wp_bind. apply wx_ue. intros v s1 Hb1 Ht1. cbv beta.
    destruct (12 <? v); [apply wp_fail|]. apply wp_ret. apply Hk; [cbn [enc_poc]; rewrite Hb0, Hb1, <- app_assoc; reflexivity|congruence].
  - (* 2 *) apply wp_ret. apply Hk; [cbn [enc_poc]; exact Hb0|exact Ht0].
  - (* 1 *) apply wp_bind. apply wx_bool. intros az s1 Hb1 Ht1. cbv beta.
    apply wp_bind. apply wx_se. intros nr s2 Hb2 Ht2. cbv beta.
    apply wp_bind. apply wx_se. intros tb s3 Hb3 Ht3. cbv beta.
    apply wp_bind. apply wx_ue. intros n s4 Hb4 Ht4. cbv beta.
    destruct (255 <? n); [apply wp_fail|].
    apply wp_bind. apply wx_rep_se. intros offs s5 Hlen Hb5 Ht5. cbv beta. apply wp_ret.
    apply Hk; [|congruence]. cbn [enc_poc]. rewrite Hlen, N2Nat.id, Hb0, Hb1, Hb2, Hb3, Hb4, Hb5. rewrite <- ?app_assoc. reflexivity.
Qed.

(* ---- small pieces ---- *)
Lemma wx_frame_mbs s (Phi : frame_mbs_flags -> src -> Prop) :
  (forall v s', bits s = (match v with Frames => flag true | Fields m => flag false ++ flag m end) ++ bits s' -> tail s' = tail s -> Phi v s') ->
  wp (frame_mbs_flags_read s) Phi.
Proof.
  intros Hk. unfold frame_mbs_flags_read. wx_steps. destruct v.
  - wx_close Hk.
  - wx_steps. wx_close Hk.
Qed.

Lemma wx_cropping s (Phi : option frame_cropping -> src -> Prop) :
  (forall v s', bits s = enc_opt (fun c => ue (left_offset c) ++ ue (right_offset c) ++ ue (top_offset c) ++ ue (bottom_offset c)) v ++ bits s' ->
                tail s' = tail s -> Phi v s') ->
  wp (frame_cropping_read s) Phi.
Proof.
  intros Hk. unfold frame_cropping_read. wx_steps. destruct v.
  - wx_steps. wx_close Hk.
  - wx_close Hk.
Qed.

Lemma wx_aspect s (Phi : option aspect_ratio_info -> src -> Prop) :
  (forall v s', bits s = enc_opt enc_aspect v ++ bits s' -> tail s' = tail s -> Phi v s') -> wp (aspect_ratio_info_read s) Phi.
Proof.
  intros Hk. unfold aspect_ratio_info_read. wx_steps. destruct v; [|wx_close Hk].
  wx_steps. destruct (N.eqb_spec v 0) as [->|Hz]; [wx_close Hk|].
  destruct (v <=? 16); [wx_close Hk|].
  destruct (N.eqb_spec v 255) as [->|Hne]; [|wx_close Hk].
  wx_steps. wx_close Hk.
Qed.

Lemma wx_overscan s (Phi : overscan_appropriate -> src -> Prop) :
  (forall v s', bits s = (match v with OvUnspecified => flag false | OvAppropriate => flag true ++ flag true
                                       | OvInappropriate => flag true ++ flag false end) ++ bits s' -> tail s' = tail s -> Phi v s') ->
  wp (overscan_appropriate_read s) Phi.
Proof.
  intros Hk. unfold overscan_appropriate_read. wx_steps. destruct v; [|wx_close Hk].
  wx_steps. destruct v; wx_close Hk.
Qed.

Lemma wx_vst s (Phi : option video_signal_type -> src -> Prop) :
  (forall v s', bits s = enc_opt (fun x => u 3 (video_format x) ++ flag (video_full_range_flag x) ++
                    enc_opt (fun c => u 8 (colour_primaries c) ++ u 8 (transfer_characteristics c) ++ u 8 (matrix_coefficients c))
                            (colour_description_ x)) v ++ bits s' -> tail s' = tail s -> Phi v s') ->
  wp (video_signal_type_read s) Phi.
Proof.
  intros Hk. unfold video_signal_type_read.
  apply wp_bind. apply wx_bool. intros f s0 Hb0 Ht0. cbv beta. destruct f; [|wx_close Hk].
  apply wp_bind. apply wx_u. intros vf s1 Hb1 Ht1. cbv beta.
  apply wp_bind. apply wx_bool. intros fr s2 Hb2 Ht2. cbv beta.
  apply wp_bind. apply wx_bool. intros cf s3 Hb3 Ht3. cbv beta.
  apply wp_bind. destruct cf.
  - wx_steps. apply wp_ret. wx_close Hk.
  - apply wp_ret. wx_close Hk.
Qed.

Lemma wx_chroma_loc s (Phi : option chroma_loc_info -> src -> Prop) :
  (forall v s', bits s = enc_opt (fun c => ue (chroma_sample_loc_type_top_field c) ++ ue (chroma_sample_loc_type_bottom_field c)) v ++ bits s' ->
                tail s' = tail s -> Phi v s') ->
  wp (chroma_loc_info_read s) Phi.
Proof. intros Hk. unfold chroma_loc_info_read. wx_steps. destruct v; [wx_steps|]; wx_close Hk. Qed.

Lemma wx_timing s (Phi : option timing_info -> src -> Prop) :
  (forall v s', bits s = enc_opt (fun t => u 32 (num_units_in_tick t) ++ u 32 (time_scale t) ++ flag (fixed_frame_rate_flag t)) v ++ bits s' ->
                tail s' = tail s -> Phi v s') ->
  wp (timing_info_read s) Phi.
Proof. intros Hk. unfold timing_info_read. wx_steps. destruct v; [wx_steps|]; wx_close Hk. Qed.

(* ---- HRD ---- *)
Definition enc_cpb (c : cpb_spec) : list bool := ue (bit_rate_value_minus1 c) ++ ue (cpb_size_value_minus1 c) ++ flag (cbr_flag c).

Lemma wx_cpb s (Phi : cpb_spec -> src -> Prop) :
  (forall v s', bits s = enc_cpb v ++ bits s' -> tail s' = tail s -> Phi v s') -> wp (cpb_spec_read s) Phi.
Proof.
  intros Hk. unfold cpb_spec_read.
  apply wp_bind. apply wx_ue. intros a s0 Hb0 Ht0. cbv beta.
  apply wp_bind. apply wx_ue. intros b s1 Hb1 Ht1. cbv beta.
  apply wp_bind. apply wx_bool. intros c s2 Hb2 Ht2. cbv beta.
  apply wp_ret. apply Hk; [|congruence]. unfold enc_cpb. unf. rewrite Hb0, Hb1, Hb2. rewrite <- ?app_assoc. reflexivity.
Qed.

Lemma wx_rep_cpb n : forall s (Phi : list cpb_spec -> src -> Prop),
  (forall l s', length l = n -> bits s = concat (map enc_cpb l) ++ bits s' -> tail s' = tail s -> Phi l s') ->
  wp (repE n cpb_spec_read s) Phi.
Proof.
  induction n as [|n IH]; intros s Phi Hk; cbn [repE].
  - apply wp_ret. apply (Hk []); reflexivity.
  - apply wp_bind. apply wx_cpb. intros c s1 Hb1 Ht1. cbv beta. apply wp_bind. apply IH.
    intros l s2 Hlen Hb2 Ht2. cbv beta. apply wp_ret.
    apply (Hk (c :: l)); [cbn [length]; lia|cbn [map concat]; rewrite Hb1, Hb2, <- app_assoc; reflexivity|congruence].
Qed.

Lemma wx_hrd s (Phi : option hrd_parameters -> src -> Prop) :
  (forall v s', bits s = enc_opt enc_hrd v ++ bits s' -> tail s' = tail s -> Phi v s') -> wp (hrd_parameters_read s) Phi.
Proof.
  intros Hk. unfold hrd_parameters_read.
  apply wp_bind. apply wx_bool. intros f s0 Hb0 Ht0. cbv beta. destruct f; [|wx_close Hk].
  apply wp_bind. apply wx_ue. intros cnt s1 Hb1 Ht1. cbv beta.
  destruct (31 <? cnt); [apply wp_fail|].
  apply wp_bind. apply wx_u. intros brs s2 Hb2 Ht2. cbv beta.
  apply wp_bind. apply wx_u. intros css s3 Hb3 Ht3. cbv beta.
  apply wp_bind. apply wx_rep_cpb. intros specs s4 Hlen Hb4 Ht4. cbv beta.
  apply wp_bind. apply wx_u. intros a s5 Hb5 Ht5. cbv beta.
  apply wp_bind. apply wx_u. intros b s6 Hb6 Ht6. cbv beta.
  apply wp_bind. apply wx_u. intros c s7 Hb7 Ht7. cbv beta.
  apply wp_bind. apply wx_u. intros d s8 Hb8 Ht8. cbv beta.
  apply wp_ret. apply Hk; [|congruence].
  cbn [enc_opt]. unfold enc_hrd. unf. rewrite Hlen.
  replace (N.of_nat (N.to_nat (cnt + 1)) - 1) with cnt by lia.
  rewrite Hb0, Hb1, Hb2, Hb3, Hb4, Hb5, Hb6, Hb7, Hb8. unfold enc_cpb. rewrite <- ?app_assoc. reflexivity.
Qed.

Lemma wx_br mr s (Phi : option bitstream_restrictions -> src -> Prop) :
  (forall v s', bits s = enc_opt (fun b => flag (motion_vectors_over_pic_boundaries_flag b) ++ ue (max_bytes_per_pic_denom b) ++
                    ue (max_bits_per_mb_denom b) ++ ue (log2_max_mv_length_horizontal b) ++ ue (log2_max_mv_length_vertical b) ++
                    ue (max_num_reorder_frames b) ++ ue (max_dec_frame_buffering b)) v ++ bits s' -> tail s' = tail s -> Phi v s') ->
  wp (bitstream_restrictions_read mr s) Phi.
Proof.
  intros Hk. unfold bitstream_restrictions_read.
  apply wp_bind. apply wx_bool. intros f s0 Hb0 Ht0. cbv beta. destruct f; [|wx_close Hk].
  apply wp_bind. apply wx_bool. intros mv s1 Hb1 Ht1. cbv beta.
  apply wp_bind. apply wx_ue. intros a s2 Hb2 Ht2. cbv beta. destruct (16 <? a); [apply wp_fail|].
  apply wp_bind. apply wx_ue. intros b s3 Hb3 Ht3. cbv beta. destruct (16 <? b); [apply wp_fail|].
  apply wp_bind. apply wx_ue. intros c s4 Hb4 Ht4. cbv beta. destruct (16 <? c); [apply wp_fail|].
  apply wp_bind. apply wx_ue. intros d s5 Hb5 Ht5. cbv beta. destruct (16 <? d); [apply wp_fail|].
  apply wp_bind. apply wx_ue. intros e s6 Hb6 Ht6. cbv beta.
  apply wp_bind. apply wx_ue. intros g s7 Hb7 Ht7. cbv beta.
  destruct (g <? e); [apply wp_fail|]. destruct (g <? mr); [apply wp_fail|].
  wx_close Hk.
Qed.

(* ---- VUI ---- *)
Lemma wx_vui mr s (Phi : option vui_parameters -> src -> Prop) :
  (forall v s', bits s = enc_opt enc_vui v ++ bits s' -> tail s' = tail s -> Phi v s') -> wp (vui_parameters_read mr s) Phi.
Proof.
  intros Hk. unfold vui_parameters_read.
  apply wp_bind. apply wx_bool. intros f s0 Hb0 Ht0. cbv beta. destruct f; [|wx_close Hk].
  apply wp_bind. apply wx_aspect. intros ar s1 Hb1 Ht1. cbv beta.
  apply wp_bind. apply wx_overscan. intros ov s2 Hb2 Ht2. cbv beta.
  apply wp_bind. apply wx_vst. intros vs s3 Hb3 Ht3. cbv beta.
  apply wp_bind. apply wx_chroma_loc. intros cl s4 Hb4 Ht4. cbv beta.
  apply wp_bind. apply wx_timing. intros ti s5 Hb5 Ht5. cbv beta.
  apply wp_bind. apply wx_hrd. intros nal s6 Hb6 Ht6. cbv beta.
  apply wp_bind. apply wx_hrd. intros vcl s7 Hb7 Ht7. cbv beta.
  apply wp_bind.
  assert (Hld : wp ((if is_some nal || is_some vcl
                     then bindE (liftE RbspReaderError (read_bool "low_delay_hrd_flag")) (fun x => retE (Some x)) else retE None) s7)
                   (fun ld s8 => bits s7 = (match ld with Some b => flag b | None => [] end) ++ bits s8 /\ tail s8 = tail s7)).
  { destruct (is_some nal || is_some vcl).
    - apply wp_bind. apply wx_bool. intros x s8 Hb8 Ht8. cbv beta. apply wp_ret. split; assumption.
    - apply wp_ret. split; reflexivity. }
  eapply wp_mono; [exact Hld|]. intros ld s8 [Hb8 Ht8]. cbv beta.
  apply wp_bind. apply wx_bool. intros ps s9 Hb9 Ht9. cbv beta.
  apply wp_bind. apply wx_br. intros br s10 Hb10 Ht10. cbv beta.
  apply wp_ret. apply Hk; [|congruence].
  cbn [enc_opt]. unfold enc_vui.
  cbn [aspect_ratio_info_ overscan_appropriate_ video_signal_type_ chroma_loc_info_ timing_info_ nal_hrd_parameters vcl_hrd_parameters
       low_delay_hrd_flag pic_struct_present_flag bitstream_restrictions_].
  rewrite Hb0, Hb1, Hb2, Hb3, Hb4, Hb5, Hb6, Hb7, Hb8, Hb9, Hb10. rewrite <- ?app_assoc. reflexivity.
Qed.

(* ---- the whole SPS ---- *)
Theorem sps_body_converse s v s' : sps_body s = OK (v, s') ->
  exists lists, bits s = enc_sps v lists ++ bits s' /\ tail s' = tail s.
Proof.
  intros H.
  assert (Hw : wp (sps_body s) (fun v s' => exists lists, bits s = enc_sps v lists ++ bits s' /\ tail s' = tail s)).
  2:{ rewrite H in Hw. exact Hw. }
  clear H v s'. unfold sps_body.
  apply wp_bind. apply wp_read_u. intros p s0 _ Hp Hb0 Ht0. cbv beta. change (2 ^ 8) with 256 in Hp.
  apply wp_bind. apply wx_u. intros c s1 Hb1 Ht1. cbv beta.
  apply wp_bind. apply wx_u. intros l s2 Hb2 Ht2. cbv beta.
  apply wp_bind. apply wx_ue. intros idv s3 Hb3 Ht3. cbv beta.
  unfold seq_param_set_id_from_u32. destruct (31 <? idv); [apply wp_fail|].
  apply wp_bind. apply wx_chroma_info. intros ci lists s4 Hb4 Ht4 Hdef. cbv beta.
  apply wp_bind. apply wx_ue. intros l2 s5 Hb5 Ht5. cbv beta.
  destruct (12 <? l2); [apply wp_fail|].
  apply wp_bind. apply wp_mapE. apply wx_poc. intros poc s6 Hb6 Ht6. cbv beta.
  apply wp_bind. apply wx_ue. intros mr s7 Hb7 Ht7. cbv beta.
  apply wp_bind. apply wx_bool. intros gaps s8 Hb8 Ht8. cbv beta.
  apply wp_bind. apply wx_ue. intros w s9 Hb9 Ht9. cbv beta.
  apply wp_bind. apply wx_ue. intros h s10 Hb10 Ht10. cbv beta.
  apply wp_bind. apply wx_frame_mbs. intros fm s11 Hb11 Ht11. cbv beta.
  apply wp_bind. apply wx_bool. intros d8 s12 Hb12 Ht12. cbv beta.
  apply wp_bind. apply wx_cropping. intros crop s13 Hb13 Ht13. cbv beta.
  apply wp_bind. apply wx_vui. intros vui s14 Hb14 Ht14. cbv beta.
  apply wp_ret. exists (if has_chroma_info p then lists else None). split; [|congruence].
  unfold enc_sps.
  cbn [profile_idc constraint_flags level_idc seq_parameter_set_id chroma_info_ log2_max_frame_num_minus4 pic_order_cnt_ max_num_ref_frames
       gaps_in_frame_num_value_allowed_flag pic_width_in_mbs_minus1 pic_height_in_map_units_minus1 frame_mbs_flags_ direct_8x8_inference_flag
       frame_cropping_ vui_parameters_].
  rewrite (spec_has_chroma_info_eq p Hp).
  rewrite Hb0, Hb1, Hb2, Hb3, Hb4, Hb5, Hb6, Hb7, Hb8, Hb9, Hb10, Hb11, Hb12, Hb13, Hb14.
  destruct (has_chroma_info p); unfold enc_chroma; rewrite <- ?app_assoc; reflexivity.
Qed.
