(* Lifting complete sweeps of a finite table to universally quantified statements. *)
From H264 Require Import Base.Prelude.

Fixpoint lookup {A} (k : N) (l : list (N * A)) : option A :=
  match l with
  | [] => None
  | (k', v) :: r => if k =? k' then Some v else lookup k r
  end.

Definition range (n : nat) : list N := map N.of_nat (seq 0 n).

Lemma in_range b n : b < N.of_nat n -> In b (range n).
Proof.
  intros H. unfold range. apply in_map_iff. exists (N.to_nat b). split; [lia|].
  apply in_seq. lia.
Qed.

Lemma forall_range (p : N -> bool) n :
  forallb p (range n) = true -> forall b, b < N.of_nat n -> p b = true.
Proof.
  intros H b Hb. rewrite forallb_forall in H. apply H. apply in_range. exact Hb.
Qed.

Lemma forall_keys {A} (p : N -> A -> bool) (l : list (N * A)) :
  forallb (fun kv => p (fst kv) (snd kv)) l = true ->
  forall k v, In (k, v) l -> p k v = true.
Proof.
  intros H k v Hin. rewrite forallb_forall in H. exact (H (k, v) Hin).
Qed.
