From H264 Require Import Base.Prelude Model.Accum Spec.AccumSpec.

Definition slices_ok (frs : list (list (list byte) * bool)) : Prop :=
  Forall (fun fr => Forall (fun b => b <> []) (fst fr)) frs.

Definition view (i : invocation) : list byte * bool := (inv_bytes i, inv_complete i).

(* the accumulator state that corresponds to the spec state *)
Definition rel (a : acc) (sofar : list byte) (ignored : bool) : Prop :=
  match aint a with
  | Buffer => ignored = false /\ abuf a = sofar
  | Ignore => ignored = true
  end.

Lemma concat_nil_nonempty (bufs : list (list byte)) :
  Forall (fun b => b <> []) bufs -> concat bufs = [] -> bufs = [].
Proof.
  intros H E. destruct bufs as [|b t]; [reflexivity|]. inversion H; subst.
  cbn in E. destruct b; [contradiction|discriminate].
Qed.

Lemma refines frs : forall a sofar ignored pol, slices_ok frs -> rel a sofar ignored ->
  map view (run_fragments a pol frs) = spec_run sofar ignored pol frs.
Proof.
  induction frs as [|[bufs e] more IH]; intros a sofar ignored pol Hok Hrel; [reflexivity|].
  inversion Hok as [|x l Hb Hmore]; subst. cbn [fst] in Hb.
  cbn [run_fragments spec_run]. unfold nal_fragment. unfold rel in Hrel.
  destruct (aint a) eqn:Ei.
  - (* Buffer *)
    destruct Hrel as [-> Hbuf]. rewrite Hbuf.
    destruct sofar as [|s0 st].
    + (* nothing accumulated yet *)
      destruct bufs as [|b0 tl].
      * cbn [concat app]. cbn [app]. destruct e.
        -- apply IH; [assumption|]. unfold rel. rewrite Ei. split; [reflexivity|assumption].
        -- apply IH; [assumption|]. unfold rel. rewrite Ei. split; [reflexivity|assumption].
      * inversion Hb as [|y l0 Hb0 Htl]; subst. cbn [app].
        destruct (concat (b0 :: tl)) as [|c0 ct] eqn:Ec.
        { exfalso. cbn in Ec. destruct b0; [contradiction|discriminate]. }
        destruct (next_decision pol) as [d pol'] eqn:Ed.
        cbn [map app]. apply f_equal2;
          [unfold view, inv_bytes; cbn [inv_chunks inv_complete]; rewrite Ec; reflexivity|].
        destruct e.
        -- apply IH; [assumption|]. unfold rel, acc_init. cbn. split; reflexivity.
        -- apply IH; [assumption|]. unfold rel. destruct d; cbn [aint abuf].
           ++ split; [reflexivity|]; try rewrite Hbuf; try rewrite Ec; reflexivity.
           ++ reflexivity.
    + (* bytes accumulated: the handler is called with buf :: bufs *)
      cbn [app]. destruct (next_decision pol) as [d pol'] eqn:Ed.
      cbn [map app]. apply f_equal2;
        [unfold view, inv_bytes; cbn [inv_chunks inv_complete concat]; reflexivity|].
      destruct e.
      * apply IH; [assumption|]. unfold rel, acc_init. cbn. split; reflexivity.
      * apply IH; [assumption|]. unfold rel. destruct d; cbn [aint abuf].
        -- split; [reflexivity|]; try rewrite Hbuf; reflexivity.
        -- reflexivity.
  - (* Ignore *)
    subst ignored. cbn [app map].
    assert (Hs : spec_run sofar true pol ((bufs, e) :: more) =
                 if e then spec_run [] false pol more else spec_run (sofar ++ concat bufs) true pol more).
    { cbn [spec_run]. destruct (sofar ++ concat bufs); reflexivity. }
    try rewrite Hs. destruct e.
    + apply IH; [assumption|]. unfold rel, acc_init. cbn. split; reflexivity.
    + apply IH; [assumption|]. unfold rel. rewrite Ei. reflexivity.
Qed.

Lemma refines_init frs pol : slices_ok frs ->
  map view (run_fragments acc_init pol frs) = spec_history pol frs.
Proof. intros H. apply refines; [exact H|]. unfold rel. cbn. split; reflexivity. Qed.

(* no byte or decision of one NAL carries over into the next *)
Lemma end_resets a pol bufs : fst (fst (nal_fragment a pol bufs true)) = acc_init.
Proof.
  unfold nal_fragment. destruct (aint a) eqn:Ei; [|reflexivity].
  destruct (abuf a) as [|x xs] eqn:Eb.
  - destruct bufs as [|b0 tl].
    + cbn. destruct a as [ab ai]. cbn in *. subst. reflexivity.
    + destruct (next_decision pol) as [d pol']. reflexivity.
  - destruct (next_decision pol) as [d pol']. reflexivity.
Qed.

(* consequences read off the spec *)
(* (1) every invocation shows the concatenation of all bytes of the current NAL so far *)
(* (2) after Ignore no invocation until the NAL ends; (3) a NAL never ignored with >= 1 byte gets exactly one complete invocation *)
Fixpoint nal_bytes (frs : list (list (list byte) * bool)) : list byte :=
  match frs with
  | [] => []
  | (bufs, e) :: more => concat bufs ++ (if e then [] else nal_bytes more)
  end.
Fixpoint ends_here (frs : list (list (list byte) * bool)) : bool :=
  match frs with
  | [] => false
  | (_, e) :: more => if e then true else ends_here more
  end.
Fixpoint after_end (frs : list (list (list byte) * bool)) : list (list (list byte) * bool) :=
  match frs with
  | [] => []
  | (_, e) :: more => if e then more else after_end more
  end.
Fixpoint drop_decisions (n : nat) (pol : list interest) : list interest :=
  match n with O => pol | S n' => drop_decisions n' (snd (next_decision pol)) end.

(* with a handler that always answers Buffer, a NAL that ends and has at least one byte produces
   invocations whose last one is complete and carries the whole NAL, and no other one is complete *)
Lemma buffer_only_one_complete frs : forall sofar,
  ends_here frs = true -> sofar ++ nal_bytes frs <> [] ->
  exists pre, spec_run sofar false [] frs =
              pre ++ (sofar ++ nal_bytes frs, true) :: spec_run [] false [] (after_end frs)
              /\ Forall (fun v => snd v = false) pre.
Proof.
  induction frs as [|[bufs e] more IH]; intros sofar He Hne; [discriminate|].
  cbn [ends_here nal_bytes after_end] in *. cbn [spec_run].
  destruct e.
  - rewrite app_nil_r in *. destruct (sofar ++ concat bufs) as [|c0 ct] eqn:E; [contradiction|].
    cbn [next_decision]. exists []. split; [reflexivity|constructor].
  - rewrite app_assoc in Hne. destruct (sofar ++ concat bufs) as [|c0 ct] eqn:E.
    + destruct (IH [] He Hne) as (pre & Hp & Hf).
      exists pre. rewrite Hp. split; [|exact Hf]. rewrite app_assoc, E. reflexivity.
    + cbn [next_decision]. destruct (IH (c0 :: ct) He Hne) as (pre & Hp & Hf).
      exists (((c0 :: ct), false) :: pre). rewrite Hp. split; [|constructor; [reflexivity|exact Hf]].
      rewrite app_assoc, E. reflexivity.
Qed.

(* after an Ignore answer the handler is not invoked again before the NAL ends *)
Lemma ignored_is_silent frs : forall sofar pol,
  exists n, spec_run sofar true pol frs = spec_run [] false pol (after_end frs) /\ n = 0%nat.
Proof.
  induction frs as [|[bufs e] more IH]; intros sofar pol; [exists 0%nat; split; reflexivity|].
  cbn [spec_run after_end]. destruct e.
  - exists 0%nat. destruct (sofar ++ concat bufs); split; reflexivity.
  - destruct (IH (sofar ++ concat bufs) pol) as (n & H & Hn). exists 0%nat.
    destruct (sofar ++ concat bufs) eqn:E; (split; [exact H|reflexivity]).
Qed.
