(* C12: the pipeline WITH its running context.  Model/Driver.v's pipeline (AnnexBReader::accumulate + a handler that
   parses every complete NAL against the context built so far) is three nested folds; here they are fused into
   `lines_of ctx0 (run_fragments ...)`, the chunking of each invocation is shown to be invisible to the parsers
   (parse_view_chunk_independent), and with `delivery` the output lines and the final context of ANY push partition
   of a serialised stream are those of parsing each unit alone, in order, against the context left by its predecessors. *)
From H264 Require Import Base.Prelude Base.Bits Spec.AnnexBSpec Spec.AccumSpec Spec.Escape
     Model.BitReader Model.RefNal Model.Rbsp Model.Source Model.AnnexB Model.Accum Model.Sei Model.Context Model.Pps Model.Driver
     Proofs.EscapeProofs Proofs.AnnexB_sem Proofs.AnnexB_push Proofs.AnnexB_compose Proofs.C08_proofs
     Proofs.C12_frame Proofs.C12_compose.
Local Open Scope N_scope.

(* what the handler prints and the context it leaves, for a list of invocations *)
Fixpoint lines_of (c : context) (invs : list invocation) : list string * context :=
  match invs with
  | [] => ([], c)
  | i :: r =>
    let pc := if inv_complete i then parse_in_ctx c i else ("-"%string, c) in
    let lr := lines_of (snd pc) r in
    (render_line i (fst pc) :: fst lr, snd lr)
  end.

Lemma lines_of_app a : forall c b,
  lines_of c (a ++ b) = (fst (lines_of c a) ++ fst (lines_of (snd (lines_of c a)) b), snd (lines_of (snd (lines_of c a)) b)).
Proof.
  induction a as [|i r IH]; intros c b; cbn [app lines_of fst snd].
  - destruct (lines_of c b); reflexivity.
  - rewrite IH. cbn [fst snd app]. reflexivity.
Qed.

(* the accumulator state after a list of fragment calls *)
Fixpoint frag_state (a : acc) (pol : list interest) (frs : list (list (list byte) * bool)) : acc * list interest :=
  match frs with
  | [] => (a, pol)
  | (bufs, e) :: r => frag_state (fst (fst (nal_fragment a pol bufs e))) (snd (fst (nal_fragment a pol bufs e))) r
  end.

Lemma run_fragments_app f1 : forall a pol f2,
  run_fragments a pol (f1 ++ f2) =
  run_fragments a pol f1 ++ run_fragments (fst (frag_state a pol f1)) (snd (frag_state a pol f1)) f2.
Proof.
  induction f1 as [|[bufs e] r IH]; intros a pol f2; cbn [app run_fragments frag_state fst snd]; [reflexivity|].
  destruct (nal_fragment a pol bufs e) as [[a' pol'] invs]. cbn [fst snd]. rewrite IH, app_assoc. reflexivity.
Qed.

Lemma frag_state_app f1 : forall a pol f2,
  frag_state a pol (f1 ++ f2) = frag_state (fst (frag_state a pol f1)) (snd (frag_state a pol f1)) f2.
Proof.
  induction f1 as [|[bufs e] r IH]; intros a pol f2; cbn [app frag_state fst snd]; [reflexivity|]. apply IH.
Qed.

(* innermost fold *)
Lemma feed_inv_gen invs : forall st out,
  fold_left feed_inv_step invs (st, out) =
  (mk_ps (ps_a st) (ps_acc st) (ps_pol st) (snd (lines_of (ps_ctx st) invs)), out ++ fst (lines_of (ps_ctx st) invs)).
Proof.
  induction invs as [|i r IH]; intros st out; cbn [fold_left lines_of fst snd].
  - rewrite app_nil_r. destruct st; reflexivity.
  - unfold feed_inv_step at 2. cbn [fst snd]. rewrite IH. cbn [ps_a ps_acc ps_pol ps_ctx]. rewrite <- app_assoc. reflexivity.
Qed.

(* middle fold *)
Lemma feed_calls_gen cs : forall st out,
  fold_left feed_call_step cs (st, out) =
  (mk_ps (ps_a st) (fst (frag_state (ps_acc st) (ps_pol st) (frs_of cs))) (snd (frag_state (ps_acc st) (ps_pol st) (frs_of cs)))
         (snd (lines_of (ps_ctx st) (run_fragments (ps_acc st) (ps_pol st) (frs_of cs)))),
   out ++ fst (lines_of (ps_ctx st) (run_fragments (ps_acc st) (ps_pol st) (frs_of cs)))).
Proof.
  induction cs as [|c r IH]; intros st out; cbn [fold_left frs_of map run_fragments frag_state lines_of fst snd].
  - rewrite app_nil_r. destruct st; reflexivity.
  - fold (frs_of r). unfold feed_call_step at 2. cbn [fst snd].
    destruct (nal_fragment (ps_acc st) (ps_pol st) (bufs c) (fin c)) as [[a' pol'] invs]. cbn [fst snd].
    unfold feed_invocations. rewrite feed_inv_gen. cbn [fst snd ps_a ps_acc ps_pol ps_ctx app].
    rewrite IH. cbn [ps_a ps_acc ps_pol ps_ctx]. rewrite lines_of_app. cbn [fst snd]. rewrite <- app_assoc. reflexivity.
Qed.

(* the Annex B reader's final state and all of its calls, over an operation list *)
Fixpoint final_a (st : astate) (ops : list aop) : astate :=
  match ops with [] => st | o :: r => final_a (fst (step st o)) r end.

Definition all_calls (st : astate) (ops : list aop) : list call := concat (run_ops st ops).

Lemma all_calls_cons st o r : all_calls st (o :: r) = snd (step st o) ++ all_calls (fst (step st o)) r.
Proof. unfold all_calls. cbn [run_ops]. destruct (step st o) as [st' cs]. reflexivity. Qed.

Lemma frs_of_app a b : frs_of (a ++ b) = frs_of a ++ frs_of b.
Proof. unfold frs_of. apply map_app. Qed.

(* outer fold *)
Lemma pipeline_gen ops : forall st out,
  let frs := frs_of (all_calls (ps_a st) ops) in
  fold_left pipeline_step ops (st, out) =
  (mk_ps (final_a (ps_a st) ops) (fst (frag_state (ps_acc st) (ps_pol st) frs)) (snd (frag_state (ps_acc st) (ps_pol st) frs))
         (snd (lines_of (ps_ctx st) (run_fragments (ps_acc st) (ps_pol st) frs))),
   out ++ fst (lines_of (ps_ctx st) (run_fragments (ps_acc st) (ps_pol st) frs))).
Proof.
  induction ops as [|o r IH]; intros st out; cbv zeta; cbn [fold_left final_a].
  - unfold all_calls. cbn [run_ops concat frs_of map run_fragments frag_state lines_of fst snd]. rewrite app_nil_r. destruct st; reflexivity.
  - rewrite all_calls_cons. unfold pipeline_step at 2. unfold pipeline_op. cbn [fst snd].
    destruct (step (ps_a st) o) as [a' cs]. cbn [fst snd]. unfold feed_calls_p. rewrite feed_calls_gen.
    cbn [fst snd ps_a ps_acc ps_pol ps_ctx app]. specialize (IH (mk_ps a' (fst (frag_state (ps_acc st) (ps_pol st) (frs_of cs)))
      (snd (frag_state (ps_acc st) (ps_pol st) (frs_of cs))) (snd (lines_of (ps_ctx st) (run_fragments (ps_acc st) (ps_pol st) (frs_of cs)))))).
    cbv zeta in IH. rewrite IH. cbn [ps_a ps_acc ps_pol ps_ctx].
    rewrite frs_of_app, run_fragments_app, frag_state_app, lines_of_app. cbn [fst snd]. rewrite <- app_assoc. reflexivity.
Qed.

(* pushes then reset, as an operation list *)
Lemma all_calls_pushes cs : forall st,
  all_calls st (map APush cs ++ [AReset]) = snd (pushes st cs) ++ snd (reset (fst (pushes st cs))).
Proof.
  induction cs as [|c r IH]; intros st; cbn [map app pushes].
  - rewrite all_calls_cons. cbn [step fst snd]. unfold all_calls. cbn [run_ops concat]. rewrite app_nil_r. reflexivity.
  - rewrite all_calls_cons. cbn [step]. rewrite IH. destruct (push st c) as [st1 k1]. cbn [fst snd].
    destruct (pushes st1 r) as [st2 k2]. cbn [fst snd]. rewrite app_assoc. reflexivity.
Qed.

(* ---- the chunking of an invocation is invisible to the parsing handler ---- *)
Definition contiguous (i : invocation) : invocation := mk_inv [inv_bytes i] (inv_complete i).

Definition inv_good (i : invocation) : Prop :=
  inv_complete i = true ->
  (exists head tl, inv_chunks i = head :: tl /\ head <> [] /\ Forall (fun ch => ch <> []) tl) /\
  exists p, unescape (skipn 1 (inv_bytes i)) = Some p.

Lemma inv_bytes_contiguous i : inv_bytes (contiguous i) = inv_bytes i.
Proof. unfold contiguous, inv_bytes at 1. cbn [inv_chunks concat]. apply app_nil_r. Qed.

Lemma render_line_contiguous i s : render_line (contiguous i) s = render_line i s.
Proof. unfold render_line. rewrite inv_bytes_contiguous. reflexivity. Qed.

Lemma parse_in_ctx_contiguous c i : inv_good i -> inv_complete i = true -> parse_in_ctx c (contiguous i) = parse_in_ctx c i.
Proof.
  intros Hg Hc. destruct (Hg Hc) as ((head & tl & Ech & Hh & Ht) & p & Hp).
  assert (Eb : inv_bytes i = head ++ concat tl) by (unfold inv_bytes; rewrite Ech; reflexivity).
  assert (Hne : head ++ concat tl <> []) by (destruct head; [contradiction|discriminate]).
  rewrite Eb in Hp.
  assert (Hp' : unescape (skipn 1 ((head ++ concat tl) ++ concat [])) = Some p) by (cbn [concat]; rewrite app_nil_r; exact Hp).
  destruct (parse_view_chunk_independent head tl p Hh Ht Hp) as [B1 B2].
  destruct (parse_view_chunk_independent (head ++ concat tl) [] p Hne (Forall_nil _) Hp') as [C1 C2].
  cbn [concat] in C1, C2. rewrite app_nil_r in C1, C2.
  unfold parse_in_ctx. rewrite inv_bytes_contiguous. unfold contiguous at 1 2 3 4 5. cbn [inv_chunks].
  rewrite Eb, Ech, B1, B2, C1. reflexivity.
Qed.

Lemma lines_of_contiguous invs : forall c, Forall inv_good invs -> lines_of c (map contiguous invs) = lines_of c invs.
Proof.
  induction invs as [|i r IH]; intros c H; [reflexivity|]. inversion H as [|? ? Hi Hr]; subst.
  cbn [map lines_of]. rewrite render_line_contiguous. change (inv_complete (contiguous i)) with (inv_complete i).
  destruct (inv_complete i) eqn:Ec.
  - rewrite (parse_in_ctx_contiguous c i Hi Ec), (IH _ Hr). reflexivity.
  - cbn [fst snd]. rewrite (IH _ Hr). reflexivity.
Qed.

(* ---- parsing the units alone, in order, each against the context its predecessors left ---- *)
Fixpoint alone_all (c : context) (us : list (list byte)) : list string * context :=
  match us with
  | [] => ([], c)
  | u :: r => let pc := parse_in_ctx c (mk_inv [u] true) in
              let lr := alone_all (snd pc) r in (fst pc :: fst lr, snd lr)
  end.

(* the parse results of the complete invocations, and the final context *)
Fixpoint complete_parses (c : context) (invs : list invocation) : list string * context :=
  match invs with
  | [] => ([], c)
  | i :: r => if inv_complete i
              then let pc := parse_in_ctx c i in let lr := complete_parses (snd pc) r in (fst pc :: fst lr, snd lr)
              else complete_parses c r
  end.

Lemma lines_ctx invs : forall c, snd (lines_of c invs) = snd (complete_parses c invs).
Proof.
  induction invs as [|i r IH]; intros c; [reflexivity|]. cbn [lines_of complete_parses snd].
  destruct (inv_complete i); cbn [snd]; apply IH.
Qed.

Lemma complete_parses_alone invs : forall c, Forall inv_good invs ->
  complete_parses c invs = alone_all c (map inv_bytes (filter inv_complete invs)).
Proof.
  induction invs as [|i r IH]; intros c H; [reflexivity|]. inversion H as [|? ? Hi Hr]; subst.
  cbn [complete_parses filter]. destruct (inv_complete i) eqn:Ec.
  - cbn [map alone_all]. rewrite <- (parse_in_ctx_contiguous c i Hi Ec). unfold contiguous. rewrite Ec.
    rewrite (IH _ Hr). reflexivity.
  - apply IH. exact Hr.
Qed.

(* every invocation the accumulator makes from well-shaped calls has non-empty chunks *)
Lemma run_fragments_chunks frs : forall a pol,
  Forall (fun fr => Forall (fun b => b <> []) (fst fr)) frs ->
  Forall (fun i => Forall (fun ch => ch <> []) (inv_chunks i)) (run_fragments a pol frs).
Proof.
  induction frs as [|[bufs e] r IH]; intros a pol H; cbn [run_fragments]; [constructor|].
  inversion H as [|? ? Hb Hr]; subst. cbn [fst] in Hb.
  pose proof (nal_fragment_chunks_ok a pol bufs e Hb) as Hk.
  destruct (nal_fragment a pol bufs e) as [[a' pol'] invs]. cbn [snd] in Hk. apply Forall_app. split; [exact Hk|apply IH; exact Hr].
Qed.

Lemma good_invs invs (units : list (nat * list byte)) :
  Forall (fun i => Forall (fun ch => ch <> []) (inv_chunks i)) invs ->
  map inv_bytes (filter inv_complete invs) = map snd units ->
  Forall (fun u => unit_ok (snd u)) units ->
  Forall (fun u => exists p, unescape (skipn 1 (snd u)) = Some p) units ->
  Forall inv_good invs.
Proof.
  intros Hch Hd Hu Hp. apply Forall_forall. intros i Hin Hc.
  assert (Hm : In (inv_bytes i) (map snd units)).
  { rewrite <- Hd. apply in_map. apply filter_In. split; assumption. }
  apply in_map_iff in Hm. destruct Hm as (u & Eu & Hu_in).
  rewrite Forall_forall in Hch, Hu, Hp. specialize (Hch i Hin). destruct (Hu u Hu_in) as (Hne & _). destruct (Hp u Hu_in) as (p & Hpu).
  rewrite Eu in Hne, Hpu. split; [|exists p; exact Hpu].
  destruct (inv_chunks i) as [|head tl] eqn:Ech.
  - exfalso. apply Hne. unfold inv_bytes. rewrite Ech. reflexivity.
  - exists head, tl. inversion Hch; subst. repeat split; assumption.
Qed.

(* End to end, with the running context: ANY push partition of the serialised stream of clean units, then the end of
   the stream, makes the parsing handler print what it would print had every invocation been one contiguous buffer,
   parse the complete NALs to exactly the results of parsing each unit alone - in order, each against the context its
   predecessors left - and leave exactly that final context. *)
Theorem pipeline_end_to_end units t cs ctx0 pre :
  Forall (fun u => unit_ok (snd u)) units -> (t = 0%nat \/ 3 <= t)%nat ->
  Forall (fun u => exists p, unescape (skipn 1 (snd u)) = Some p) units ->
  concat cs = annexb_encode units t ->
  let r := pipeline_run ctx0 [] pre (map APush cs ++ [AReset]) in
  exists invs,
    map inv_bytes (filter inv_complete invs) = map snd units /\
    snd r = pre ++ fst (lines_of ctx0 (map contiguous invs)) /\
    complete_parses ctx0 invs = alone_all ctx0 (map snd units) /\
    ps_ctx (fst r) = snd (alone_all ctx0 (map snd units)).
Proof.
  intros Hu Ht Hp Hc. cbv zeta. unfold pipeline_run. rewrite pipeline_gen. cbn [fst snd ps_a ps_acc ps_pol ps_ctx].
  rewrite all_calls_pushes.
  pose proof (delivery units t cs Hu Ht Hc) as Hd. pose proof (pushes_calls_ok cs AStart) as Hok.
  destruct (pushes AStart cs) as [st k]. cbn [fst snd] in *.
  assert (Hall : Forall call_ok (k ++ snd (reset st))) by (apply Forall_app; split; [exact Hok|apply reset_calls_ok]).
  set (invs := run_fragments acc_init [] (frs_of (k ++ snd (reset st)))) in *.
  assert (Hgood : Forall inv_good invs).
  { apply (good_invs invs units); try assumption. apply run_fragments_chunks. apply (slices_ok_of_calls _ Hall). }
  exists invs. split; [exact Hd|]. split; [rewrite (lines_of_contiguous invs ctx0 Hgood); reflexivity|].
  rewrite lines_ctx, (complete_parses_alone invs ctx0 Hgood), Hd. split; reflexivity.
Qed.

(* the three folds of the pipeline model are one pass of the handler over the accumulator's invocations *)
Theorem pipeline_fused ops ctx0 pol pre :
  let invs := run_fragments acc_init pol (frs_of (all_calls AStart ops)) in
  snd (pipeline_run ctx0 pol pre ops) = pre ++ fst (lines_of ctx0 invs) /\
  ps_ctx (fst (pipeline_run ctx0 pol pre ops)) = snd (complete_parses ctx0 invs).
Proof. cbv zeta. unfold pipeline_run. rewrite pipeline_gen. cbn [fst snd ps_a ps_acc ps_pol ps_ctx]. rewrite lines_ctx. split; reflexivity. Qed.
