(* C12, framing link: the start-code segmentation of an Annex B serialisation gives the NAL units back. *)
From H264 Require Import Base.Prelude Spec.AnnexBSpec Spec.Escape Proofs.EscapeProofs.
Local Open Scope N_scope.

Lemma outside_cons3 a b c rest :
  outside (a :: b :: c :: rest) =
  if (a =? 0) && (b =? 0) && (c =? 1) then let '(u, us) := inside rest in u :: us else outside (b :: c :: rest).
Proof. reflexivity. Qed.

Lemma inside_cons3 a b c rest :
  inside (a :: b :: c :: rest) =
  if (a =? 0) && (b =? 0) && (c =? 1) then let '(u, us) := inside rest in ([], u :: us)
  else if (a =? 0) && (b =? 0) && (c =? 0) then ([], outside (b :: c :: rest))
  else let '(u, us) := inside (b :: c :: rest) in (a :: u, us).
Proof. reflexivity. Qed.

Lemma inside_short l : (length l < 3)%nat -> inside l = (l, []).
Proof. destruct l as [|a [|b [|c r]]]; cbn [length]; intros H; try reflexivity. lia. Qed.

(* byte-stream NAL unit syntax (B.1): leading zero bytes, a start code (the 4-byte form is one more
   leading zero), the NAL unit; trailing zero bytes at the end of the stream *)
Definition frame (k : nat) (nal : list byte) : list byte := repeat 0 k ++ 0 :: 0 :: 1 :: nal.
Definition annexb_encode (units : list (nat * list byte)) (t : nat) : list byte :=
  concat (map (fun u => frame (fst u) (snd u)) units) ++ repeat 0 t.

(* a NAL unit as emulation prevention leaves it: non-empty, last byte non-zero, no 00 00 0x (x <= 2) *)
Definition unit_ok (nal : list byte) : Prop := nal <> [] /\ last nal 1 <> 0 /\ has_sc nal = false.

Lemma outside_zeros t : outside (repeat 0 t) = [].
Proof.
  induction t as [|t IH]; [reflexivity|]. destruct t as [|[|t]]; try reflexivity.
  cbn [repeat] in *. rewrite outside_cons3. change ((0 =? 0) && (0 =? 0) && (0 =? 1)) with false. cbv iota. exact IH.
Qed.

Lemma outside_skip_zero l : outside (0 :: 0 :: l) = outside (0 :: l) \/ exists r, l = 1 :: r.
Proof.
  destruct l as [|c r]; [left; reflexivity|]. destruct (N.eqb_spec c 1) as [->|Hc]; [right; eauto|left].
  rewrite outside_cons3. destruct (N.eqb_spec c 1); [contradiction|]. rewrite Bool.andb_false_r. reflexivity.
Qed.

Lemma outside_frame k Y : outside (frame k Y) = let '(u, us) := inside Y in u :: us.
Proof.
  unfold frame. induction k as [|k IH]; [reflexivity|].
  cbn [repeat app]. destruct k as [|k].
  - cbn [repeat app] in *. rewrite outside_cons3. change ((0 =? 0) && (0 =? 0) && (0 =? 1)) with false. cbv iota. exact IH.
  - cbn [repeat app] in *. destruct k as [|k]; cbn [repeat app] in *;
      rewrite outside_cons3; change ((0 =? 0) && (0 =? 0) && (0 =? 1)) with false; cbv iota; exact IH.
Qed.

(* where a unit may end: the end of the stream, trailing zero bytes (3 or more), or the next frame *)
Inductive boundary : list byte -> Prop :=
| bd_end : boundary []
| bd_zeros t : (3 <= t)%nat -> boundary (repeat 0 t)
| bd_frame k Y : boundary (frame k Y).

Lemma inside_boundary X : boundary X -> inside X = ([], outside X).
Proof.
  intros H. destruct H as [|t Ht|k Y].
  - reflexivity.
  - rewrite outside_zeros. destruct t as [|[|[|t]]]; try lia. cbn [repeat]. rewrite inside_cons3.
    change ((0 =? 0) && (0 =? 0) && (0 =? 1)) with false. change ((0 =? 0) && (0 =? 0) && (0 =? 0)) with true. cbv iota.
    change (0 :: 0 :: repeat 0 t) with (repeat 0 (S (S t))). rewrite outside_zeros. reflexivity.
  - rewrite outside_frame. unfold frame. destruct k as [|k]; cbn [repeat app].
    + rewrite inside_cons3. change ((0 =? 0) && (0 =? 0) && (1 =? 1)) with true. cbv iota. destruct (inside Y); reflexivity.
    + assert (Hw : exists c rest, repeat 0 k ++ 0 :: 0 :: 1 :: Y = 0 :: c :: rest /\ (c = 0 \/ (k = 0%nat /\ c = 0))).
      { destruct k as [|k]; cbn [repeat app]; [eexists _, _; split; [reflexivity|left; reflexivity]|].
        destruct k as [|k]; cbn [repeat app]; eexists _, _; (split; [reflexivity|left; reflexivity]). }
      destruct Hw as (c & rest & Hw & Hc). assert (c = 0) by (destruct Hc as [|[_ ?]]; assumption). subst c.
      rewrite Hw, inside_cons3.
      change ((0 =? 0) && (0 =? 0) && (0 =? 1)) with false. change ((0 =? 0) && (0 =? 0) && (0 =? 0)) with true. cbv iota.
      rewrite <- Hw. fold (frame k Y). rewrite outside_frame. reflexivity.
Qed.

Lemma last_cons_ne {A} (a : A) r d : r <> [] -> last (a :: r) d = last r d.
Proof. destruct r; [contradiction|reflexivity]. Qed.

(* a clean unit with a non-zero last byte is passed through whole, whatever follows *)
Lemma inside_clean nal : forall X, has_sc nal = false -> (nal = [] \/ last nal 1 <> 0) ->
  inside (nal ++ X) = (nal ++ fst (inside X), snd (inside X)).
Proof.
  induction nal as [|a r IH]; intros X Hsc Hlast.
  - cbn [app]. destruct (inside X); reflexivity.
  - destruct Hlast as [Hnil|Hlast]; [discriminate|].
    assert (Hr : r = [] \/ last r 1 <> 0).
    { destruct r as [|b r']; [left; reflexivity|right]. rewrite last_cons_ne in Hlast by discriminate. exact Hlast. }
    assert (Hscr : has_sc r = false).
    { destruct r as [|b [|c r']]; try reflexivity.
      change (has_sc (a :: b :: c :: r')) with (((a =? 0) && (b =? 0) && (c <=? 2)) || has_sc (b :: c :: r')) in Hsc.
      apply Bool.orb_false_iff in Hsc. apply Hsc. }
    specialize (IH X Hscr Hr).
    cbn [app]. destruct (r ++ X) as [|b [|c rest]] eqn:Et.
    + (* r = [], X = [] *)
      destruct r; [|discriminate]. cbn [app] in Et. subst X. reflexivity.
    + destruct r as [|b' r'].
      * cbn [app] in Et. subst X. reflexivity.
      * destruct r'; [|discriminate]. cbn [app] in Et. injection Et as -> ->. reflexivity.
    + rewrite inside_cons3, IH.
      assert (Hno : (a =? 0) && (b =? 0) && (c =? 1) = false /\ (a =? 0) && (b =? 0) && (c =? 0) = false).
      { destruct r as [|b' [|c' r']].
        - cbn [last] in Hlast. destruct (N.eqb_spec a 0); [contradiction|]. split; reflexivity.
        - cbn [app] in Et. injection Et as -> _. cbn [last] in Hlast.
          destruct (N.eqb_spec b 0); [contradiction|]. rewrite !Bool.andb_false_r. split; reflexivity.
        - cbn [app] in Et. injection Et as -> -> _.
          change (has_sc (a :: b :: c :: r')) with (((a =? 0) && (b =? 0) && (c <=? 2)) || has_sc (b :: c :: r')) in Hsc.
          apply Bool.orb_false_iff in Hsc. destruct Hsc as [Hw _].
          destruct (a =? 0); [|split; reflexivity]. destruct (b =? 0); [|split; reflexivity]. cbn [andb] in *.
          destruct (N.eqb_spec c 1) as [->|]; [discriminate Hw|]. destruct (N.eqb_spec c 0) as [->|]; [discriminate Hw|].
          split; reflexivity. }
      destruct Hno as [H1 H0]. rewrite H1, H0. reflexivity.
Qed.

Lemma boundary_encode units t : (t = 0%nat \/ 3 <= t)%nat -> boundary (annexb_encode units t).
Proof.
  intros Ht. unfold annexb_encode. destruct units as [|[k nal] more].
  - cbn [map concat app]. destruct Ht as [->|Ht]; [apply bd_end|apply bd_zeros; exact Ht].
  - cbn [map concat fst snd]. unfold frame at 1. rewrite <- !app_assoc. cbn [app].
    apply (bd_frame k (nal ++ concat (map (fun u => frame (fst u) (snd u)) more) ++ repeat 0 t)).
Qed.

Theorem segment_encode units t : Forall (fun u => unit_ok (snd u)) units -> (t = 0%nat \/ 3 <= t)%nat ->
  segment (annexb_encode units t) = map snd units.
Proof.
  intros Hall Ht. unfold segment. induction units as [|[k nal] more IH].
  - unfold annexb_encode. cbn [map concat app]. apply outside_zeros.
  - inversion Hall as [|x xs Hu Hmore]; subst. cbn [snd] in Hu. destruct Hu as (Hne & Hlast & Hsc).
    specialize (IH Hmore).
    assert (E : annexb_encode ((k, nal) :: more) t = frame k (nal ++ annexb_encode more t)).
    { unfold annexb_encode. cbn [map concat fst snd]. unfold frame at 1. rewrite <- !app_assoc. reflexivity. }
    rewrite E, outside_frame, inside_clean by (try exact Hsc; right; exact Hlast).
    rewrite (inside_boundary _ (boundary_encode more t Ht)). cbn [fst snd map]. rewrite app_nil_r, IH. reflexivity.
Qed.

(* NAL units as the standard builds them - a non-zero header byte and the escaped RBSP, whose last byte is
   non-zero (rbsp_trailing_bits) - satisfy unit_ok *)
Lemma escape_from_nonempty p : forall z, p <> [] -> escape_from z p <> [].
Proof. destruct p as [|b r]; intros z H; [contradiction|]. cbn [escape_from]. destruct z as [|[|z]]; try discriminate. destruct (b <=? 3); discriminate. Qed.

Lemma escape_from_cons z b r : escape_from z (b :: r) =
  match z with
  | S (S _) => if b <=? 3 then 3 :: b :: escape_from (if b =? 0 then 1%nat else 0%nat) r else b :: escape_from 0 r
  | _ => b :: escape_from (if b =? 0 then S z else 0%nat) r
  end.
Proof. reflexivity. Qed.

Lemma last_escape_from p : forall z, p <> [] -> last p 1 <> 0 -> last (escape_from z p) 1 <> 0.
Proof.
  induction p as [|b r IH]; intros z Hne Hl; [contradiction|].
  destruct r as [|c r'].
  - cbn [last] in Hl. cbn [escape_from]. destruct (N.eqb_spec b 0) as [E|_]; [contradiction|].
    destruct z as [|[|z]]; cbn [escape_from last]; try exact Hl.
    destruct (b <=? 3); cbn [last]; exact Hl.
  - rewrite last_cons_ne in Hl by discriminate.
    assert (Hrec : forall z', last (escape_from z' (c :: r')) 1 <> 0) by (intros z'; apply IH; [discriminate|exact Hl]).
    assert (Hn : forall z', escape_from z' (c :: r') <> []) by (intros z'; apply escape_from_nonempty; discriminate).
    rewrite escape_from_cons. destruct z as [|[|z]].
    + rewrite last_cons_ne by apply Hn. apply Hrec.
    + rewrite last_cons_ne by apply Hn. apply Hrec.
    + destruct (b <=? 3).
      * rewrite last_cons_ne by discriminate. rewrite last_cons_ne by apply Hn. apply Hrec.
      * rewrite last_cons_ne by apply Hn. apply Hrec.
Qed.

Theorem unit_ok_escaped hdr p : hdr <> 0 -> p <> [] -> last p 1 <> 0 -> unit_ok (hdr :: escape p).
Proof.
  intros Hh Hp Hl. unfold unit_ok. split; [discriminate|]. split.
  - rewrite last_cons_ne by (apply escape_from_nonempty; exact Hp). apply last_escape_from; assumption.
  - rewrite has_sc_cons_nz by exact Hh. apply escape_no_startcode.
Qed.
