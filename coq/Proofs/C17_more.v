(* C17 for the PPS parser, the slice header parser and the SEI reader.  The fuelled loops take their fuel
   from the source length, which differs between the prefix and the whole: mono2 relates two parsers
   (the same loop under two fuels) and the loops are shown insensitive to extra fuel. *)
From H264 Require Import Base.Prelude Base.Bits Model.BitReader Model.Parser Model.Nal Model.Sps Model.SpsDerived Model.Context
     Model.Pps Model.Slice Model.Sei Spec.Golomb
     Proofs.BitsLemmas Proofs.C07_proofs Proofs.C14_proofs Proofs.C17_proofs.
Local Open Scope N_scope.

Definition mono2 {E A} (blk : E -> Prop) (p q : PE E A) : Prop :=
  forall s1 s2, prefix_src s1 s2 ->
    match p s1 with
    | OK (v, s1') => exists s2', q s2 = OK (v, s2') /\ prefix_src s1' s2'
    | ERR e => blk e \/ exists e', q s2 = ERR e'
    | _ => True
    end.

Lemma mono_is_mono2 {E A} blk (p : PE E A) : mono blk p <-> mono2 blk p p.
Proof. split; intros H; exact H. Qed.

Lemma mono2_bind {E A B} blk (p q : PE E A) (k k' : A -> PE E B) :
  mono2 blk p q -> (forall a, mono2 blk (k a) (k' a)) -> mono2 blk (bindE p k) (bindE q k').
Proof.
  intros Hp Hk s1 s2 H. unfold bindE. specialize (Hp s1 s2 H).
  destruct (p s1) as [[a s1']|e| |]; auto.
  - destruct Hp as (s2' & E2 & H'). rewrite E2. apply Hk. exact H'.
  - destruct Hp as [Hb|[e' E2]]; [left; exact Hb|right]. rewrite E2. exists e'. reflexivity.
Qed.

Lemma mono2_fuel0 {E A} blk (q : PE E A) : mono2 blk (fun _ => FUEL) q.
Proof. intros s1 s2 H. exact I. Qed.

(* a parser whose outcome does not depend on the source, and which leaves it alone *)
Lemma mono_const {E A} blk (x : out E A) :
  mono blk (fun s => match x with OK a => OK (a, s) | ERR e => ERR e | PANIC w => PANIC w | FUEL => FUEL end).
Proof. intros s1 s2 H. destruct x as [a|e| |]; auto. - exists s2. split; [reflexivity|exact H]. - right. eauto. Qed.

Lemma mono_liftO {E A} blk (x : out E A) : mono blk (liftO x).
Proof. apply mono_const. Qed.

Lemma mono_panic {E A} blk w : mono blk (@panicE E A w).
Proof. intros s1 s2 H. exact I. Qed.

(* a loop that takes its fuel from the source *)
Lemma mono_fuelled {E A} blk (L : nat -> PE E A) :
  (forall f1 f2, (f1 <= f2)%nat -> mono2 blk (L f1) (L f2)) ->
  mono blk (fun s => L (S (length (bits s))) s).
Proof.
  intros HL s1 s2 H. destruct H as [Ht [more Hm]].
  apply (HL (S (length (bits s1))) (S (length (bits s2)))); [rewrite Hm, app_length; lia|].
  split; [exact Ht|exists more; exact Hm].
Qed.

(* ---- PPS ---- *)
Definition blk_pps (e : ppserr) : Prop :=
  (exists b, e = PpsRbspReaderError b /\ blocked b) \/ (exists x, e = PpsScalingMatrix x /\ blk_sm x).
Lemma blk_pps_rd e : blocked e -> blk_pps (PpsRbspReaderError e). Proof. intros H. left. eauto. Qed.

Lemma mono_sps_helper {A} (x : out spserr A) : mono blk_pps (sps_helper x).
Proof. intros s1 s2 H. unfold sps_helper. destruct x as [a|e| |]; auto. exists s2. split; [reflexivity|exact H]. Qed.

Ltac mono_pps :=
  repeat first
  [ apply mono_ret | apply mono_fail | apply mono_panic | apply mono_sps_helper | apply mono_liftO
  | apply mono_bind; [|intros ?]
  | apply mono_liftE; [exact blk_pps_rd|mono_prim]
  | apply mono_repE
  | match goal with |- mono _ (if ?c then _ else _) => destruct c end ].

Lemma mono_slice_rect sp : mono blk_pps (slice_rect_read sp).
Proof. unfold slice_rect_read, rd. mono_pps. Qed.

Lemma mono_run_length sp : mono blk_pps (read_run_length sp).
Proof. unfold read_run_length, rd. mono_pps. Qed.

Lemma mono2_ids_loop size : forall f1 f2 count acc, (f1 <= f2)%nat ->
  mono2 blk_pps (read_ids_loop f1 count size acc) (read_ids_loop f2 count size acc).
Proof.
  induction f1 as [|f1 IH]; intros f2 count acc Hle; [apply mono2_fuel0|].
  destruct f2 as [|f2]; [lia|]. cbn [read_ids_loop].
  destruct (count =? 0); [apply mono_ret|].
  apply mono2_bind; [apply mono_liftE; [exact blk_pps_rd|mono_prim]|]. intros x. apply IH. lia.
Qed.

Lemma mono_group_ids n : mono blk_pps (read_group_ids n).
Proof.
  unfold read_group_ids, rd.
  apply mono_bind; [apply mono_liftE; [exact blk_pps_rd|mono_prim]|]. intros m1.
  apply mono_bind; [apply mono_liftO|]. intros cnt.
  apply (mono_fuelled blk_pps (fun f => read_ids_loop f cnt (ceil_log2_1p n) [])).
  intros f1 f2 Hle. apply mono2_ids_loop. exact Hle.
Qed.

Lemma mono_slice_group n sp : mono blk_pps (slice_group_read n sp).
Proof.
  unfold slice_group_read, rd.
  apply mono_bind; [apply mono_liftE; [exact blk_pps_rd|mono_prim]|]. intros t.
  destruct t as [|p]; [|destruct p as [p|p|]; [destruct p as [p|p|]|destruct p as [p|p|]|]; try destruct p].
  all: try apply mono_fail.
  all: try (apply mono_bind; [apply mono_group_ids|intros ?; apply mono_ret]).
  all: try (mono_pps; first [apply mono_run_length | apply mono_slice_rect]).
Qed.

Lemma mono_slice_groups sp : mono blk_pps (read_slice_groups sp).
Proof.
  unfold read_slice_groups, rd.
  apply mono_bind; [apply mono_liftE; [exact blk_pps_rd|mono_prim]|]. intros n.
  destruct (7 <? n); [apply mono_fail|]. destruct (0 <? n); [|apply mono_ret].
  apply mono_bind; [apply mono_slice_group|]. intros g. apply mono_ret.
Qed.

Lemma mono_pic_scaling_lists n : forall i l4 l8, mono blk_pps (read_pic_scaling_lists n i l4 l8).
Proof.
  induction n as [|n IH]; intros i l4 l8; cbn [read_pic_scaling_lists]; [apply mono_ret|]. unfold rd.
  apply mono_bind; [apply mono_liftE; [exact blk_pps_rd|mono_prim]|]. intros f.
  destruct (Nat.ltb i 6);
    (apply mono_bind; [apply mono_mapE with (blkE := blk_sm); [intros e He; right; eauto|apply mono_scaling_list]|]);
    intros sl; apply IH.
Qed.

Lemma mono_pps_extra sp : mono blk_pps (pps_extra_read sp).
Proof.
  unfold pps_extra_read, pic_scaling_matrix_read, rd.
  apply mono_bind; [apply mono_liftE; [exact blk_pps_rd|mono_prim]|]. intros more.
  destruct more; [|apply mono_ret].
  apply mono_bind; [apply mono_liftE; [exact blk_pps_rd|mono_prim]|]. intros t.
  apply mono_bind.
  { apply mono_bind; [apply mono_liftE; [exact blk_pps_rd|mono_prim]|]. intros f.
    destruct (negb f); [apply mono_ret|].
    apply mono_bind; [apply mono_pic_scaling_lists|]. intros r. apply mono_ret. }
  intros m. mono_pps.
Qed.

Theorem mono_pps_body ctx : mono blk_pps (pps_body ctx).
Proof.
  unfold pps_body, read_num_ref_idx, rd.
  apply mono_bind; [apply mono_liftE; [exact blk_pps_rd|mono_prim]|]. intros idv.
  destruct (pic_param_set_id_from_u32 idv) as [id|]; [|apply mono_fail].
  apply mono_bind; [apply mono_liftE; [exact blk_pps_rd|mono_prim]|]. intros sidv.
  destruct (seq_param_set_id_from_u32 sidv) as [sid|]; [|apply mono_fail].
  destruct (sps_by_id ctx sid) as [sp|]; [|apply mono_fail].
  apply mono_bind; [apply mono_liftE; [exact blk_pps_rd|mono_prim]|]. intros ec.
  apply mono_bind; [apply mono_liftE; [exact blk_pps_rd|mono_prim]|]. intros bf.
  apply mono_bind; [apply mono_slice_groups|]. intros sg.
  apply mono_bind; [mono_pps|]. intros l0.
  apply mono_bind; [mono_pps|]. intros l1.
  apply mono_bind; [apply mono_liftE; [exact blk_pps_rd|mono_prim]|]. intros wp.
  apply mono_bind; [apply mono_liftE; [exact blk_pps_rd|mono_prim]|]. intros wb.
  apply mono_bind; [apply mono_liftE; [exact blk_pps_rd|mono_prim]|]. intros qp.
  apply mono_bind; [apply mono_liftE; [exact blk_pps_rd|mono_prim]|]. intros qs.
  apply mono_bind; [apply mono_liftE; [exact blk_pps_rd|mono_prim]|]. intros cq.
  apply mono_bind; [apply mono_liftE; [exact blk_pps_rd|mono_prim]|]. intros db.
  apply mono_bind; [apply mono_liftE; [exact blk_pps_rd|mono_prim]|]. intros ci.
  apply mono_bind; [apply mono_liftE; [exact blk_pps_rd|mono_prim]|]. intros rp.
  apply mono_bind; [apply mono_pps_extra|]. intros ext.
  mono_pps.
Qed.

(* PPS on a proper prefix presented as incomplete: never a value; an error other than "would block"
   only where the complete NAL is an error too *)
Theorem pps_prefix_consistent ctx s1 s2 : prefix_src s1 s2 ->
  match pps_from_bits ctx s1 with
  | OK _ => False
  | ERR e => blk_pps e \/ exists e', pps_from_bits ctx s2 = ERR e'
  | _ => True
  end.
Proof.
  intros H. unfold pps_from_bits. pose proof (mono_pps_body ctx s1 s2 H) as Hm.
  destruct (pps_body ctx s1) as [[v s1']|e| |]; auto.
  - destruct Hm as (s2' & E2 & [Ht' [more Hmore]]). rewrite E2.
    rewrite (finish_rbsp_spec s1'), (finish_rbsp_spec s2'), Ht', Hmore.
    destruct (bits s1') as [|b r].
    + left. left. eexists. split; [reflexivity|]. eexists. reflexivity.
    + cbn [app]. destruct (any_one r) eqn:Ea.
      * right. assert (Ea2 : any_one (r ++ more) = true) by (unfold any_one in *; rewrite existsb_app, Ea; reflexivity).
        rewrite Ea2. eexists. reflexivity.
      * destruct b; left; left; (eexists; split; [reflexivity|eexists; reflexivity]).
  - destruct Hm as [Hb|[e' E2]]; [left; exact Hb|right]. rewrite E2. eauto.
Qed.

(* ---- slice header ---- *)
Definition blk_slice (e : sliceerr) : Prop := exists b, e = SlRbspError b /\ blocked b.
Lemma blk_slice_rd e : blocked e -> blk_slice (SlRbspError e). Proof. intros H. unfold blk_slice. eauto. Qed.

Lemma mono_sps_help {A} (x : out spserr A) : mono blk_slice (sps_help x).
Proof. intros s1 s2 H. unfold sps_help. destruct x as [a|e| |]; auto. exists s2. split; [reflexivity|exact H]. Qed.

Ltac mono_sl :=
  repeat first
  [ apply mono_ret | apply mono_fail | apply mono_panic | apply mono_sps_help | apply mono_liftO
  | apply mono_bind; [|intros ?]
  | apply mono_liftE; [exact blk_slice_rd|mono_prim]
  | apply mono_repE
  | match goal with |- mono _ (if ?c then _ else _) => destruct c end ].

Lemma mono2_mods_loop : forall f1 f2 acc, (f1 <= f2)%nat ->
  mono2 blk_slice (read_mods_loop f1 acc) (read_mods_loop f2 acc).
Proof.
  induction f1 as [|f1 IH]; intros f2 acc Hle; [apply mono2_fuel0|].
  destruct f2 as [|f2]; [lia|]. cbn [read_mods_loop]. unfold rs.
  apply mono2_bind; [apply mono_liftE; [exact blk_slice_rd|mono_prim]|]. intros idc.
  destruct idc as [|p]; [|destruct p as [p|p|]; [destruct p as [p|p|]|destruct p as [p|p|]|]].
  all: try apply mono_fail; try apply mono_ret.
  all: apply mono2_bind; [apply mono_liftE; [exact blk_slice_rd|mono_prim]|]; intros v; apply IH; lia.
Qed.

Lemma mono_mod_list : mono blk_slice read_mod_list.
Proof.
  unfold read_mod_list, rs.
  apply mono_bind; [apply mono_liftE; [exact blk_slice_rd|mono_prim]|]. intros f.
  destruct (negb f); [apply mono_ret|].
  apply (mono_fuelled blk_slice (fun f => read_mods_loop f [])). intros f1 f2 Hle. apply mono2_mods_loop. exact Hle.
Qed.

Lemma mono_rpl fam : mono blk_slice (ref_pic_list_mods_read fam).
Proof.
  unfold ref_pic_list_mods_read. destruct fam; try apply mono_ret;
    repeat (apply mono_bind; [apply mono_mod_list|intros ?]); apply mono_ret.
Qed.

Lemma mono_one_weight mono_flag : mono blk_slice (read_one_weight mono_flag).
Proof. unfold read_one_weight, rs. mono_sl. Qed.

Lemma mono_pwt st pp sp nra : mono blk_slice (pred_weight_table_read st pp sp nra).
Proof.
  unfold pred_weight_table_read, rs. cbv zeta.
  apply mono_bind; [apply mono_liftE; [exact blk_slice_rd|mono_prim]|]. intros ld.
  apply mono_bind; [mono_sl|]. intros cd.
  apply mono_bind; [apply mono_liftO|]. intros cnt.
  apply mono_bind; [apply mono_repE; apply mono_one_weight|]. intros ws.
  destruct (family_eqb (family st) FamB); [apply mono_fail|apply mono_ret].
Qed.

Lemma mono2_mmco_loop : forall f1 f2 acc, (f1 <= f2)%nat ->
  mono2 blk_slice (read_mmco_loop f1 acc) (read_mmco_loop f2 acc).
Proof.
  induction f1 as [|f1 IH]; intros f2 acc Hle; [apply mono2_fuel0|].
  destruct f2 as [|f2]; [lia|]. cbn [read_mmco_loop]. unfold rs.
  apply mono2_bind; [apply mono_liftE; [exact blk_slice_rd|mono_prim]|]. intros op.
  destruct op as [|p]; [apply mono_ret|].
  destruct p as [p|p|]; [destruct p as [p|p|]; [destruct p|destruct p|]|destruct p as [p|p|]; [destruct p|destruct p|]|].
  all: try apply mono_fail.
  all: try (apply IH; lia).
  all: try (apply mono2_bind; [apply mono_liftE; [exact blk_slice_rd|mono_prim]|]; intros v1; apply IH; lia).
  all: apply mono2_bind; [apply mono_liftE; [exact blk_slice_rd|mono_prim]|]; intros v1;
       apply mono2_bind; [apply mono_liftE; [exact blk_slice_rd|mono_prim]|]; intros v2; apply IH; lia.
Qed.

Lemma mono_drm ut : mono blk_slice (dec_ref_pic_marking_read ut).
Proof.
  unfold dec_ref_pic_marking_read, rs. destruct (ut =? 5); [mono_sl|].
  apply mono_bind; [apply mono_liftE; [exact blk_slice_rd|mono_prim]|]. intros ad.
  destruct ad; [|apply mono_ret].
  apply mono_bind; [|intros ops; apply mono_ret].
  apply (mono_fuelled blk_slice (fun f => read_mmco_loop f [])). intros f1 f2 Hle. apply mono2_mmco_loop. exact Hle.
Qed.

Theorem mono_slice_header ctx hdr : mono blk_slice (slice_header_read ctx hdr).
Proof.
  unfold slice_header_read, sl_read_num_ref_idx, rs. cbv zeta.
  apply mono_bind; [apply mono_liftE; [exact blk_slice_rd|mono_prim]|]. intros fmb.
  apply mono_bind; [apply mono_liftE; [exact blk_slice_rd|mono_prim]|]. intros stv.
  destruct (slice_type_from_id stv) as [st|]; [|apply mono_fail].
  apply mono_bind; [apply mono_liftE; [exact blk_slice_rd|mono_prim]|]. intros ppid.
  destruct (pic_param_set_id_from_u32 ppid) as [pid|]; [|apply mono_fail].
  destruct (pps_by_id ctx pid) as [pp|]; [|apply mono_fail].
  destruct (sps_by_id ctx (pps_seq_parameter_set_id pp)) as [sp|]; [|apply mono_fail].
  apply mono_bind; [mono_sl|]. intros cp.
  apply mono_bind; [apply mono_sps_help|]. intros l2.
  apply mono_bind; [apply mono_liftE; [exact blk_slice_rd|mono_prim]|]. intros fn.
  apply mono_bind; [destruct (frame_mbs_flags_ sp); mono_sl|]. intros fp.
  apply mono_bind; [mono_sl|]. intros idr.
  apply mono_bind; [destruct (pic_order_cnt_ sp); mono_sl|]. intros poc.
  apply mono_bind; [mono_sl|]. intros red.
  apply mono_bind; [mono_sl|]. intros dsp.
  apply mono_bind; [mono_sl|]. intros nra.
  destruct ((nal_unit_type_id hdr =? 20) || (nal_unit_type_id hdr =? 21)); [apply mono_fail|].
  apply mono_bind; [apply mono_rpl|]. intros rpl.
  apply mono_bind.
  { match goal with |- mono _ (if ?c then _ else _) => destruct c end; [|apply mono_ret].
    apply mono_bind; [apply mono_pwt|]. intros t. apply mono_ret. }
  intros pwt.
  apply mono_bind.
  { destruct (nal_ref_idc hdr =? 0); [apply mono_ret|]. apply mono_bind; [apply mono_drm|]. intros m. apply mono_ret. }
  intros drm.
  apply mono_bind; [mono_sl|]. intros cab.
  apply mono_bind; [apply mono_liftE; [exact blk_slice_rd|mono_prim]|]. intros qpd.
  destruct (51 <? qpd)%Z; [apply mono_fail|].
  apply mono_bind; [mono_sl|]. intros spq.
  apply mono_bind; [mono_sl|]. intros ddf.
  apply mono_bind; [apply mono_liftE; [exact blk_slice_rd|mono_prim]|]. intros more.
  destruct (negb more); [apply mono_fail|apply mono_ret].
Qed.

(* ---- SEI reader (byte level) ---- *)
Definition prefix_bsrc (b1 b2 : bsrc) : Prop := stail b1 = TWouldBlock /\ exists more, sbytes b2 = sbytes b1 ++ more.

Lemma u32_loop_prefix : forall f1 l acc more f2, (length l < f1)%nat -> (length (l ++ more) < f2)%nat ->
  match read_u32_loop f1 l acc with
  | Some (OK (v, r)) => read_u32_loop f2 (l ++ more) acc = Some (OK (v, r ++ more))
  | Some (ERR InvalidData) => read_u32_loop f2 (l ++ more) acc = Some (ERR InvalidData)
  | _ => True
  end.
Proof.
  induction f1 as [|f1 IH]; intros l acc more f2 H1 H2; [lia|]. destruct f2 as [|f2]; [lia|].
  cbn [read_u32_loop]. destruct l as [|b r]; [exact I|]. cbn [app].
  destruct (two32 <=? acc + b); [reflexivity|]. destruct (b =? 255); [|reflexivity].
  apply IH; cbn [length app] in *; lia.
Qed.

Lemma read_u32_prefix nm b1 b2 : prefix_bsrc b1 b2 ->
  match read_u32 nm b1 with
  | OK (v, b1') => exists b2', read_u32 nm b2 = OK (v, b2') /\ prefix_bsrc b1' b2'
  | ERR e => blocked e \/ read_u32 nm b2 = ERR e
  | _ => True
  end.
Proof.
  intros [Ht [more Hm]]. unfold read_u32. rewrite Hm.
  pose proof (u32_loop_prefix (S (length (sbytes b1))) (sbytes b1) 0 more (S (length (sbytes b1 ++ more)))
                (Nat.lt_succ_diag_r _) (Nat.lt_succ_diag_r _)) as H.
  destruct (read_u32_loop (S (length (sbytes b1))) (sbytes b1) 0) as [[[v r]|k| |]|]; try exact I.
  - rewrite H. eexists. split; [reflexivity|]. split; [exact Ht|]. exists more. reflexivity.
  - destruct k; try (left; exists nm; rewrite Ht; reflexivity). right. rewrite H. reflexivity.
Qed.

Definition prefix_reader (r1 r2 : sei_reader) : Prop :=
  prefix_bsrc (sr_src r1) (sr_src r2) /\ payloads_seen r1 = payloads_seen r2 /\ sr_done r1 = false /\ sr_done r2 = false.

Theorem sei_next_prefix r1 r2 : prefix_reader r1 r2 ->
  match fst (sei_next r1) with
  | OK (Some m) => fst (sei_next r2) = OK (Some m) /\ prefix_reader (snd (sei_next r1)) (snd (sei_next r2))
  | OK None => False
  | ERR e => blocked e \/ fst (sei_next r2) = ERR e
  | _ => True
  end.
Proof.
  intros (Hsrc & Hseen & Hd1 & Hd2). unfold sei_next. rewrite Hd1, Hd2, <- Hseen.
  pose proof (read_u32_prefix "payload_type" _ _ Hsrc) as H1.
  destruct (read_u32 "payload_type" (sr_src r1)) as [[pt s1]|e| |]; cbn [fst snd]; try exact I.
  2:{ destruct H1 as [Hb|E2]; [left; exact Hb|right]. rewrite E2. reflexivity. }
  destruct H1 as (s1' & E2 & Hp1). rewrite E2. destruct Hp1 as [Ht1 [more1 Hm1]].
  destruct ((pt =? 128) && (0 <? payloads_seen r1)) eqn:Eend.
  - destruct (sbytes s1) as [|x xs] eqn:Es1.
    + rewrite Ht1. cbn [fst]. left. exists "payload_type"%string. reflexivity.
    + rewrite Hm1. cbn [app].
      assert (Hp1 : prefix_bsrc s1 s1') by (split; [exact Ht1|exists more1; rewrite Es1; exact Hm1]).
      pose proof (read_u32_prefix "payload_len" _ _ Hp1) as H2.
      destruct (read_u32 "payload_len" s1) as [[len s2]|e| |]; cbn [fst snd]; try exact I.
      2:{ destruct H2 as [Hb|E3]; [left; exact Hb|right]. rewrite E3. reflexivity. }
      destruct H2 as (s2' & E3 & [Ht2 [more2 Hm2]]). rewrite E3.
      destruct (N.ltb_spec (N.of_nat (length (sbytes s2))) len) as [Hshort|Hlong].
      * cbn [fst]. left. exists "payload"%string. rewrite Ht2. reflexivity.
      * assert (Hl2 : (N.to_nat len <= length (sbytes s2))%nat) by lia.
        destruct (N.ltb_spec (N.of_nat (length (sbytes s2'))) len) as [Hx|_]; [rewrite Hm2, app_length in Hx; lia|].
        cbn [fst snd]. rewrite Hm2. rewrite firstn_app. replace (N.to_nat len - length (sbytes s2))%nat with 0%nat by lia.
        rewrite firstn_O, app_nil_r. split; [reflexivity|].
        split; [|split; [reflexivity|split; reflexivity]]. cbn [sr_src].
        split; [exact Ht2|]. cbn [sbytes]. exists more2. rewrite skipn_app.
        replace (N.to_nat len - length (sbytes s2))%nat with 0%nat by lia. reflexivity.
  - assert (Hp1 : prefix_bsrc s1 s1') by (split; [exact Ht1|exists more1; exact Hm1]).
    pose proof (read_u32_prefix "payload_len" _ _ Hp1) as H2.
    destruct (read_u32 "payload_len" s1) as [[len s2]|e| |]; cbn [fst snd]; try exact I.
    2:{ destruct H2 as [Hb|E3]; [left; exact Hb|right]. rewrite E3. reflexivity. }
    destruct H2 as (s2' & E3 & [Ht2 [more2 Hm2]]). rewrite E3.
    destruct (N.ltb_spec (N.of_nat (length (sbytes s2))) len) as [Hshort|Hlong].
    + cbn [fst]. left. exists "payload"%string. rewrite Ht2. reflexivity.
    + assert (Hl2 : (N.to_nat len <= length (sbytes s2))%nat) by lia.
      destruct (N.ltb_spec (N.of_nat (length (sbytes s2'))) len) as [Hx|_]; [rewrite Hm2, app_length in Hx; lia|].
      cbn [fst snd]. rewrite Hm2. rewrite firstn_app. replace (N.to_nat len - length (sbytes s2))%nat with 0%nat by lia.
      rewrite firstn_O, app_nil_r. split; [reflexivity|].
      split; [|split; [reflexivity|split; reflexivity]]. cbn [sr_src].
      split; [exact Ht2|]. cbn [sbytes]. exists more2. rewrite skipn_app.
      replace (N.to_nat len - length (sbytes s2))%nat with 0%nat by lia. reflexivity.
Qed.

(* the messages a reader yields before its first None / error *)
Fixpoint sei_collect (fuel : nat) (r : sei_reader) : list sei_msg * out biterr unit :=
  match fuel with
  | O => ([], FUEL)
  | S f =>
    match sei_next r with
    | (OK (Some m), r') => let '(ms, e) := sei_collect f r' in (m :: ms, e)
    | (OK None, _) => ([], OK tt)
    | (ERR e, _) => ([], ERR e)
    | (PANIC w, _) => ([], PANIC w)
    | (FUEL, _) => ([], FUEL)
    end
  end.

Theorem sei_collect_prefix fuel : forall r1 r2, prefix_reader r1 r2 ->
  let '(ms1, e1) := sei_collect fuel r1 in
  let '(ms2, e2) := sei_collect fuel r2 in
  exists rest, ms2 = ms1 ++ rest /\
    match e1 with
    | ERR e => blocked e \/ (rest = [] /\ e2 = ERR e)
    | OK _ => False
    | _ => True
    end.
Proof.
  induction fuel as [|f IH]; intros r1 r2 Hp; cbn [sei_collect]; [exists []; split; [reflexivity|exact I]|].
  pose proof (sei_next_prefix r1 r2 Hp) as H.
  destruct (sei_next r1) as [res1 r1']. destruct (sei_next r2) as [res2 r2']. cbn [fst snd] in H.
  destruct res1 as [[m|]|e| |].
  - destruct H as [Hres Hp']. subst res2. specialize (IH r1' r2' Hp').
    destruct (sei_collect f r1') as [ms1 e1]. destruct (sei_collect f r2') as [ms2 e2].
    destruct IH as (rest & -> & He). exists rest. split; [reflexivity|exact He].
  - contradiction.
  - destruct H as [Hb|Hres].
    + destruct res2 as [[m2|]|e2| |]; try (eexists; split; [reflexivity|left; exact Hb]).
      destruct (sei_collect f r2') as [ms2 e2]. eexists. split; [reflexivity|left; exact Hb].
    + subst res2. exists []. split; [reflexivity|right; split; reflexivity].
  - destruct res2 as [[m2|]|e2| |]; try (eexists; split; [reflexivity|exact I]).
    destruct (sei_collect f r2') as [ms2 e2]. eexists. split; [reflexivity|exact I].
  - destruct res2 as [[m2|]|e2| |]; try (eexists; split; [reflexivity|exact I]).
    destruct (sei_collect f r2') as [ms2 e2]. eexists. split; [reflexivity|exact I].
Qed.
