(* C05 forward direction: the PPS parser model recovers every conforming structure from its encoding. *)
From H264 Require Import Base.Prelude Base.Bits Model.BitReader Model.Parser Model.Sps Model.SpsDerived Model.Context Model.Pps
     Spec.Golomb Spec.SyntaxSps Spec.SyntaxPps
     Proofs.BitsLemmas Proofs.C07_proofs Proofs.Parses Proofs.TablesLib Proofs.C14_proofs Proofs.SpsRoundtrip
     Proofs.Wp Proofs.SpsInv Proofs.PpsInv Proofs.C05_tail.
Local Open Scope N_scope.

Lemma bind_parses {E A B} (p : PE E A) (k : A -> PE E B) b1 rest tl a :
  Parses p b1 a -> bindE p k (mk_src (b1 ++ rest) tl) = k a (mk_src rest tl).
Proof. intros H. unfold bindE. rewrite H. reflexivity. Qed.

(* ---- the SPS helpers on an accepted SPS ---- *)
Definition dims_ok (sp : sps) : Prop :=
  pic_width_in_mbs_minus1 sp + 1 < two32 /\ pic_height_in_map_units_minus1 sp + 1 < two32.

Lemma inv_sps_dims sp : inv_sps sp -> dims_ok sp.
Proof.
  intros Hi. destruct Hi as (_ & _ & _ & _ & _ & _ & _ & _ & Hw & Hh & _). unfold dims_ok, two32. split; lia.
Qed.

Definition model_size (sp : sps) : N := N.min (spec_size_in_map_units sp) 4294967295.

Lemma parses_helper_size sp : dims_ok sp -> Parses (sps_helper (pic_size_in_map_units sp)) [] (model_size sp).
Proof.
  intros [Hw Hh] rest tl. unfold sps_helper, pic_size_in_map_units, pic_width_in_mbs, pic_height_in_map_units, add32.
  destruct (N.ltb_spec (pic_width_in_mbs_minus1 sp + 1) two32); [|lia].
  destruct (N.ltb_spec (pic_height_in_map_units_minus1 sp + 1) two32); [|lia]. reflexivity.
Qed.

Lemma parses_helper_width sp : dims_ok sp -> Parses (sps_helper (pic_width_in_mbs sp)) [] (spec_width_in_mbs sp).
Proof.
  intros [Hw Hh] rest tl. unfold sps_helper, pic_width_in_mbs, add32.
  destruct (N.ltb_spec (pic_width_in_mbs_minus1 sp + 1) two32); [|lia]. reflexivity.
Qed.

Lemma model_size_pos sp : 1 <= model_size sp.
Proof. unfold model_size, spec_size_in_map_units. apply N.min_glb; [nia|lia]. Qed.

Lemma parses_run_length sp v : dims_ok sp -> v <= spec_size_in_map_units sp - 1 -> u32v v ->
  Parses (read_run_length sp) (ue v) v.
Proof.
  intros Hd Hv Hu. unfold read_run_length, rd, u32v in *.
  apply (parses_cast _ (ue v ++ [])); [apply app_nil_r|].
  eapply parses_bind; [apply parses_ue; lia|]. cbv beta.
  rewrite <- (app_nil_r []). eapply parses_bind; [apply parses_helper_size; exact Hd|]. cbv beta.
  pose proof (model_size_pos sp) as Hp.
  rewrite <- (app_nil_r []). eapply parses_bind.
  { apply (parses_liftO _ (model_size sp - 1)). unfold sub32. destruct (N.leb_spec 1 (model_size sp)); [reflexivity|lia]. }
  cbv beta. assert (Hc : (model_size sp - 1 <? v) = false).
  { apply N.ltb_ge. unfold model_size. destruct (N.min_spec (spec_size_in_map_units sp) 4294967295) as [[_ ->]|[_ ->]]; lia. }
  rewrite Hc. apply parses_ret.
Qed.

Lemma parses_rect sp r : dims_ok sp ->
  fst r <= snd r -> snd r < spec_size_in_map_units sp ->
  fst r mod spec_width_in_mbs sp <= snd r mod spec_width_in_mbs sp -> u32v (snd r) ->
  Parses (slice_rect_read sp) (ue (fst r) ++ ue (snd r)) r.
Proof.
  intros Hd H1 H2 H3 Hu. destruct r as [tl br]. cbn [fst snd] in *. unfold slice_rect_read, rd, u32v in *.
  eapply parses_bind; [apply parses_ue; lia|]. cbv beta.
  rewrite <- (app_nil_r (ue br)). eapply parses_bind; [apply parses_ue; lia|]. cbv beta.
  destruct (N.ltb_spec br tl); [lia|].
  rewrite <- (app_nil_r []). eapply parses_bind; [apply parses_helper_size; exact Hd|]. cbv beta.
  assert (Hc : (model_size sp <? br) = false).
  { apply N.ltb_ge. unfold model_size. destruct (N.min_spec (spec_size_in_map_units sp) 4294967295) as [[_ ->]|[_ ->]]; lia. }
  rewrite Hc.
  rewrite <- (app_nil_r []). eapply parses_bind; [apply parses_helper_width; exact Hd|]. cbv beta.
  assert (Hw0 : (spec_width_in_mbs sp =? 0) = false) by (apply N.eqb_neq; unfold spec_width_in_mbs; lia).
  rewrite Hw0. destruct (N.ltb_spec (br mod spec_width_in_mbs sp) (tl mod spec_width_in_mbs sp)); [lia|].
  apply parses_ret.
Qed.

Lemma ceil_log2_is_spec n : 1 <= n <= 7 -> ceil_log2_1p n = N.log2_up (n + 1).
Proof.
  intros H. assert (Hc : n = 1 \/ n = 2 \/ n = 3 \/ n = 4 \/ n = 5 \/ n = 6 \/ n = 7) by lia.
  destruct Hc as [->|[->|[->|[->|[->|[->| ->]]]]]]; reflexivity.
Qed.

Lemma id_fits n x : 1 <= n <= 7 -> x <= n -> x < 2 ^ ceil_log2_1p n.
Proof.
  intros H Hx. assert (Hc : n = 1 \/ n = 2 \/ n = 3 \/ n = 4 \/ n = 5 \/ n = 6 \/ n = 7) by lia.
  destruct Hc as [->|[->|[->|[->|[->|[->| ->]]]]]]; cbn; lia.
Qed.

Lemma parses_ids_loop size ids : forall fuel acc, 1 <= size <= 32 ->
  (length ids < fuel)%nat -> Forall (fun x => x < 2 ^ size) ids ->
  Parses (read_ids_loop fuel (N.of_nat (length ids)) size acc) (concat (map (to_bits (N.to_nat size)) ids)) (acc ++ ids).
Proof.
  induction ids as [|x r IH]; intros fuel acc Hs Hf Hall; (destruct fuel as [|f]; [cbn [length] in Hf; lia|]); cbn [read_ids_loop].
  - cbn [length N.of_nat]. change (0 =? 0) with true. cbv iota. rewrite app_nil_r. apply parses_ret.
  - inversion Hall as [|y ys Hx Hr]; subst.
    destruct (N.eqb_spec (N.of_nat (length (x :: r))) 0) as [E|_]; [cbn [length] in E; lia|].
    cbn [map concat]. unfold rd. eapply parses_bind; [apply parses_u; [lia|exact Hx]|]. cbv beta.
    replace (N.of_nat (length (x :: r)) - 1) with (N.of_nat (length r)) by (cbn [length]; lia).
    replace (acc ++ x :: r) with ((acc ++ [x]) ++ r) by (rewrite <- app_assoc; reflexivity).
    apply IH; [exact Hs|cbn [length] in Hf; lia|exact Hr].
Qed.

Lemma concat_to_bits_length size ids : length (concat (map (to_bits size) ids)) = (size * length ids)%nat.
Proof.
  induction ids as [|x r IH]; cbn [map concat length]; [lia|]. rewrite app_length, to_bits_length, IH. lia.
Qed.

Lemma parses_group_ids n ids : 1 <= n <= 7 -> (1 <= length ids)%nat -> N.of_nat (length ids) < 4294967296 ->
  Forall (fun x => x <= n) ids ->
  Parses (read_group_ids n) (ue (N.of_nat (length ids) - 1) ++ concat (map (u (slice_group_id_bits n)) ids)) ids.
Proof.
  intros Hn Hl Hl2 Hall rest tl. unfold read_group_ids, rd.
  rewrite <- app_assoc. rewrite (bind_parses _ _ (ue (N.of_nat (length ids) - 1)) _ tl (N.of_nat (length ids) - 1)) by (apply parses_ue; lia).
  unfold bindE at 1. unfold liftO, add32. destruct (N.ltb_spec (N.of_nat (length ids) - 1 + 1) two32) as [_|Hge]; [|unfold two32 in Hge; lia].
  replace (N.of_nat (length ids) - 1 + 1) with (N.of_nat (length ids)) by lia.
  cbn [bits]. unfold u, slice_group_id_bits. rewrite <- (ceil_log2_is_spec n Hn).
  pose proof (ceil_log2_range n Hn) as Hr.
  pose proof (parses_ids_loop (ceil_log2_1p n) ids
     (S (length (concat (map (to_bits (N.to_nat (ceil_log2_1p n))) ids) ++ rest))) []) as Hp.
  cbn [app] in Hp. apply Hp.
  - lia.
  - rewrite app_length, concat_to_bits_length. nia.
  - eapply Forall_impl; [|exact Hall]. intros x Hx. apply id_fits; assumption.
Qed.

Ltac pcast b := apply (parses_cast _ b); [rewrite ?app_nil_r; reflexivity|].

Lemma parses_slice_group sp g : dims_ok sp -> wf_slice_group sp g ->
  Parses (slice_group_read (num_slice_groups_minus1_of (Some g)) sp) (enc_slice_group g) g.
Proof.
  intros Hd Hwf. unfold slice_group_read, rd. destruct g as [l|n|l|t n d r|n ids]; cbn [wf_slice_group enc_slice_group num_slice_groups_minus1_of] in *.
  - destruct Hwf as [Hlen Hall].
    eapply parses_bind; [apply parses_ue; lia|]. cbv beta iota.
    pcast ([] ++ (concat (map ue l) ++ [])). eapply parses_bind.
    { apply (parses_liftO _ (N.of_nat (length l))). unfold add32.
      destruct (N.ltb_spec (N.of_nat (length l) - 1 + 1) two32) as [_|Hge]; [f_equal; lia|unfold two32 in Hge; lia]. }
    cbv beta. eapply parses_bind.
    { rewrite Nat2N.id. apply (parses_repE (read_run_length sp) ue).
      eapply Forall_impl; [|exact Hall]. intros v [Hv Hu]. apply parses_run_length; assumption. }
    cbv beta. apply parses_ret.
  - pcast (ue 1 ++ []). eapply parses_bind; [apply parses_ue; lia|]. cbv beta iota. apply parses_ret.
  - destruct Hwf as [Hlen Hall].
    eapply parses_bind; [apply parses_ue; lia|]. cbv beta iota.
    pcast (concat (map (fun r => ue (fst r) ++ ue (snd r)) l) ++ []). eapply parses_bind.
    { rewrite Nat2N.id. apply (parses_repE (slice_rect_read sp) (fun r => ue (fst r) ++ ue (snd r))).
      eapply Forall_impl; [|exact Hall]. intros r (H1 & H2 & H3 & H4). apply parses_rect; assumption. }
    cbv beta. apply parses_ret.
  - destruct Hwf as (Ht & Hn & Hr & Hu). unfold u32v in Hu.
    eapply parses_bind; [apply parses_ue; lia|]. cbv beta.
    assert (Hc : t = 3 \/ t = 4 \/ t = 5) by lia.
    assert (Hbody : Parses (d0 <- liftE PpsRbspReaderError (read_bool "slice_group_change_direction_flag") ;;
                            r0 <- liftE PpsRbspReaderError (read_ue "slice_group_change_rate_minus1") ;;
                            size <- sps_helper (pic_size_in_map_units sp) ;;
                            sm1 <- liftO (sub32 size 1) ;;
                            if sm1 <? r0 then failE (InvalidSliceGroupChangeRateMinus1 r0) else retE (SgChanging t n d0 r0))%pe
                           (flag d ++ ue r) (SgChanging t n d r)).
    { eapply parses_bind; [apply parses_bool|]. cbv beta.
      pcast (ue r ++ []). eapply parses_bind; [apply parses_ue; lia|]. cbv beta.
      pcast ([] ++ @nil bool). eapply parses_bind; [apply parses_helper_size; exact Hd|]. cbv beta.
      pose proof (model_size_pos sp) as Hp.
      pcast ([] ++ @nil bool). eapply parses_bind.
      { apply (parses_liftO _ (model_size sp - 1)). unfold sub32. destruct (N.leb_spec 1 (model_size sp)); [reflexivity|lia]. }
      cbv beta. assert (Hcc : (model_size sp - 1 <? r) = false).
      { apply N.ltb_ge. unfold model_size. destruct (N.min_spec (spec_size_in_map_units sp) 4294967295) as [[_ ->]|[_ ->]]; lia. }
      rewrite Hcc. apply parses_ret. }
    destruct Hc as [->|[->| ->]]; exact Hbody.
  - destruct Hwf as (Hn & Hl & Hl2 & Hall).
    eapply parses_bind; [apply parses_ue; lia|]. cbv beta iota.
    pcast ((ue (N.of_nat (length ids) - 1) ++ concat (map (u (slice_group_id_bits n)) ids)) ++ []).
    eapply parses_bind; [apply parses_group_ids; assumption|]. cbv beta. apply parses_ret.
Qed.

Lemma parses_slice_groups sp g : dims_ok sp -> match g with Some x => wf_slice_group sp x | None => True end ->
  Parses (read_slice_groups sp) (enc_slice_groups g) g.
Proof.
  intros Hd Hwf. unfold read_slice_groups, enc_slice_groups, rd.
  assert (Hn : num_slice_groups_minus1_of g <= 7 /\ (0 < num_slice_groups_minus1_of g <-> g <> None)).
  { destruct g as [[l|n|l|t n d r|n ids]|]; cbn [wf_slice_group num_slice_groups_minus1_of] in *;
      try (split; [lia|split; [discriminate|lia]]); try (split; [lia|split; [intros; lia|congruence]]). }
  destruct Hn as [Hn7 Hn0].
  eapply parses_bind; [apply parses_ue; lia|]. cbv beta.
  destruct (N.ltb_spec 7 (num_slice_groups_minus1_of g)); [lia|].
  destruct g as [x|].
  - destruct (N.ltb_spec 0 (num_slice_groups_minus1_of (Some x))) as [_|Hz]; [|assert (0 < num_slice_groups_minus1_of (Some x)) by (apply Hn0; discriminate); lia].
    pcast (enc_slice_group x ++ []). eapply parses_bind; [apply parses_slice_group; assumption|]. cbv beta. apply parses_ret.
  - cbn [num_slice_groups_minus1_of]. change (0 <? 0) with false. cbv iota. apply parses_ret.
Qed.

Lemma parses_num_ref_idx nm v : v <= 31 -> Parses (read_num_ref_idx nm) (ue v) v.
Proof.
  intros Hv. unfold read_num_ref_idx, rd. pcast (ue v ++ []).
  eapply parses_bind; [apply parses_ue; lia|]. cbv beta. destruct (N.ltb_spec 31 v); [lia|]. apply parses_ret.
Qed.

(* ---- picture scaling lists ---- *)
Definition sl_body (present : option (list Z)) : list bool :=
  match present with Some ds => concat (map se ds) | None => [] end.

Lemma enc_scaling_list_split present : enc_scaling_list present = flag (is_some present) ++ sl_body present.
Proof. destruct present; reflexivity. Qed.

Lemma parses_scaling_body size present sl :
  sem_scaling_list size present = Some sl -> deltas_ok present ->
  Parses (read_scaling_list size (is_some present)) (sl_body present) sl.
Proof.
  intros Hs Hr. unfold sem_scaling_list, sl_body, read_scaling_list in *. destruct present as [ds|]; cbn [is_some negb].
  - destruct (derive_scaling ds size true 8 8 false []) as [[udf l]|] eqn:Ed; [|discriminate].
    pcast (concat (map se ds) ++ []). eapply parses_bind; [apply (parses_fill _ _ _ _ _ _ _ _ Ed Hr)|]. cbv beta.
    cbn [fst snd]. destruct udf; injection Hs as <-; apply parses_ret.
  - injection Hs as <-. apply parses_ret.
Qed.

Lemma parses_pic_scaling_lists ls : forall i l4 l8 r4 r8,
  Forall deltas_ok ls ->
  map Some r4 = map (sem_scaling_list 16) (firstn (6 - i) ls) ->
  map Some r8 = map (sem_scaling_list 64) (skipn (6 - i) ls) ->
  Parses (read_pic_scaling_lists (length ls) i l4 l8) (concat (map enc_scaling_list ls)) (l4 ++ r4, l8 ++ r8).
Proof.
  induction ls as [|x ls IH]; intros i l4 l8 r4 r8 Hok H4 H8; cbn [length read_pic_scaling_lists map concat].
  - rewrite firstn_nil in H4. rewrite skipn_nil in H8. destruct r4; [|discriminate]. destruct r8; [|discriminate].
    rewrite !app_nil_r. apply parses_ret.
  - inversion Hok as [|y ys Hx Hrest]; subst. rewrite enc_scaling_list_split, <- app_assoc. unfold rd.
    eapply parses_bind; [apply parses_bool|]. cbv beta.
    destruct (Nat.ltb_spec i 6) as [Hi|Hi].
    + replace (6 - i)%nat with (S (6 - S i)) in H4, H8 by lia. cbn [firstn skipn map] in H4, H8.
      destruct r4 as [|a r4']; [discriminate|]. injection H4 as Ha H4.
      eapply parses_bind; [apply parses_mapE; apply (parses_scaling_body 16 x a (eq_sym Ha) Hx)|]. cbv beta.
      replace (l4 ++ a :: r4') with ((l4 ++ [a]) ++ r4') by (rewrite <- app_assoc; reflexivity).
      apply IH; assumption.
    + replace (6 - i)%nat with 0%nat in H4, H8 by lia. cbn [firstn skipn map] in H4, H8.
      destruct r4; [|discriminate]. destruct r8 as [|a r8']; [discriminate|]. injection H8 as Ha H8.
      eapply parses_bind; [apply parses_mapE; apply (parses_scaling_body 64 x a (eq_sym Ha) Hx)|]. cbv beta.
      replace (l8 ++ a :: r8') with ((l8 ++ [a]) ++ r8') by (rewrite <- app_assoc; reflexivity).
      apply IH; [assumption| |].
      * replace (6 - S i)%nat with 0%nat by lia. reflexivity.
      * replace (6 - S i)%nat with 0%nat by lia. exact H8.
Qed.

Definition enc_psm (plists : option (list (option (list Z)))) : list bool :=
  match plists with Some ls => flag true ++ concat (map enc_scaling_list ls) | None => flag false end.

Lemma parses_psm sp t8 plists m :
  match plists, m with
  | None, None => True
  | Some ls, Some mm =>
      length ls = (6 + psm_count sp t8)%nat /\ Forall deltas_ok ls /\
      map Some (psm4x4 mm) = map (sem_scaling_list 16) (firstn 6 ls) /\
      match psm8x8 mm with
      | None => skipn 6 ls = []
      | Some l8 => l8 <> [] /\ map Some l8 = map (sem_scaling_list 64) (skipn 6 ls)
      end
  | _, _ => False
  end ->
  Parses (pic_scaling_matrix_read sp t8) (enc_psm plists) m.
Proof.
  intros H. unfold pic_scaling_matrix_read, enc_psm, rd. destruct plists as [ls|]; destruct m as [mm|]; try contradiction.
  - destruct H as (Hlen & Hok & H4 & H8).
    eapply parses_bind; [apply parses_bool|]. cbv beta. cbn [negb].
    pcast (concat (map enc_scaling_list ls) ++ []).
    fold (psm_count sp t8). rewrite <- Hlen.
    destruct mm as [m4 m8]. cbn [psm4x4 psm8x8] in *.
    eapply parses_bind.
    { apply (parses_pic_scaling_lists ls 0 [] [] m4 (match m8 with Some l => l | None => [] end) Hok).
      - exact H4.
      - destruct m8 as [l8|]; [destruct H8 as [_ H8]; exact H8|]. cbn [Nat.sub]. rewrite H8. reflexivity. }
    cbv beta. cbn [app fst snd]. destruct m8 as [l8|].
    + destruct H8 as [Hne _]. destruct l8; [contradiction|]. apply parses_ret.
    + apply parses_ret.
  - pcast (flag false ++ []). eapply parses_bind; [apply parses_bool|]. cbv beta. cbn [negb]. apply parses_ret.
Qed.

Lemma enc_pps_ext_nonempty x plists : enc_pps_ext (Some x) plists <> [].
Proof. cbn [enc_pps_ext flag app]. discriminate. Qed.

Lemma pps_extra_at sp e plists k : wf_pps_ext sp e plists ->
  pps_extra_read sp (mk_src (enc_pps_ext e plists ++ trailing_bits k) TEof) = OK (e, mk_src (trailing_bits k) TEof).
Proof.
  intros Hwf. unfold pps_extra_read, rd. destruct e as [x|]; cbn [wf_pps_ext] in Hwf.
  - unfold bindE at 1. unfold liftE at 1. rewrite has_more_before_trailing by apply enc_pps_ext_nonempty.
    destruct Hwf as [Hq Hm]. cbn [enc_pps_ext]. fold (enc_psm plists).
    assert (Hp : Parses (t <- liftE PpsRbspReaderError (read_bool "transform_8x8_mode_flag") ;;
                         m <- pic_scaling_matrix_read sp t ;;
                         q <- liftE PpsRbspReaderError (read_se "second_chroma_qp_index_offset") ;;
                         if ((q <? -12) || (12 <? q))%Z then failE (InvalidSecondChromaQpIndexOffset q)
                         else retE (Some (mk_ext t m q)))%pe
                        (flag (transform_8x8_mode_flag x) ++ enc_psm plists ++ se (second_chroma_qp_index_offset x)) (Some x)).
    { eapply parses_bind; [apply parses_bool|]. cbv beta.
      eapply parses_bind.
      { apply (parses_psm sp (transform_8x8_mode_flag x) plists (pic_scaling_matrix_ x)).
        destruct plists as [ls|]; destruct (pic_scaling_matrix_ x) as [mm|]; try exact Hm. }
      cbv beta. pcast (se (second_chroma_qp_index_offset x) ++ []).
      eapply parses_bind; [apply parses_se; lia|]. cbv beta.
      assert (Hc : ((second_chroma_qp_index_offset x <? -12)%Z || (12 <? second_chroma_qp_index_offset x)%Z) = false) by lia.
      rewrite Hc. destruct x. apply parses_ret. }
    apply Hp.
  - subst plists. cbn [enc_pps_ext app]. unfold bindE, liftE. rewrite has_more_at_trailing. reflexivity.
Qed.

Ltac bp bitsv val tac := rewrite (bind_parses _ _ bitsv _ _ val) by tac; cbv beta.

Theorem pps_body_roundtrip c p plists k : ctx_sps_ok c -> wf_pps c p plists ->
  pps_body c (mk_src (enc_pps p plists ++ trailing_bits k) TEof) = OK (p, mk_src (trailing_bits k) TEof).
Proof.
  intros Hctx (Hid & Hsid & sp & Hsp & Hsg & Hl0 & Hl1 & Hwb & Hqp & Hqs & Hcq & Hext).
  assert (Hd : dims_ok sp) by (apply inv_sps_dims; apply (Hctx _ _ Hsp)).
  assert (Hbd : bit_depth_luma_minus8 (chroma_info_ sp) <= 6).
  { pose proof (Hctx _ _ Hsp) as Hi. destruct Hi as (_ & _ & _ & _ & (Hb & _) & _). exact Hb. }
  unfold pps_body, enc_pps, rd. rewrite <- !app_assoc.
  bp (ue (pic_parameter_set_id p)) (pic_parameter_set_id p) ltac:(apply parses_ue; lia).
  unfold pic_param_set_id_from_u32. destruct (N.ltb_spec 255 (pic_parameter_set_id p)); [lia|].
  bp (ue (pps_seq_parameter_set_id p)) (pps_seq_parameter_set_id p) ltac:(apply parses_ue; lia).
  unfold seq_param_set_id_from_u32. destruct (N.ltb_spec 31 (pps_seq_parameter_set_id p)); [lia|].
  rewrite Hsp.
  bp (flag (entropy_coding_mode_flag p)) (entropy_coding_mode_flag p) ltac:(apply parses_bool).
  bp (flag (bottom_field_pic_order_in_frame_present_flag p)) (bottom_field_pic_order_in_frame_present_flag p) ltac:(apply parses_bool).
  bp (enc_slice_groups (slice_groups p)) (slice_groups p) ltac:(apply parses_slice_groups; assumption).
  bp (ue (num_ref_idx_l0_default_active_minus1 p)) (num_ref_idx_l0_default_active_minus1 p) ltac:(apply parses_num_ref_idx; assumption).
  bp (ue (num_ref_idx_l1_default_active_minus1 p)) (num_ref_idx_l1_default_active_minus1 p) ltac:(apply parses_num_ref_idx; assumption).
  bp (flag (weighted_pred_flag p)) (weighted_pred_flag p) ltac:(apply parses_bool).
  bp (u 2 (weighted_bipred_idc p)) (weighted_bipred_idc p) ltac:(apply (parses_u _ 8 2); [lia|change (2 ^ 2) with 4; lia]).
  bp (se (pic_init_qp_minus26 p)) (pic_init_qp_minus26 p) ltac:(apply parses_se; lia).
  bp (se (pic_init_qs_minus26 p)) (pic_init_qs_minus26 p) ltac:(apply parses_se; lia).
  bp (se (chroma_qp_index_offset p)) (chroma_qp_index_offset p) ltac:(apply parses_se; lia).
  bp (flag (deblocking_filter_control_present_flag p)) (deblocking_filter_control_present_flag p) ltac:(apply parses_bool).
  bp (flag (constrained_intra_pred_flag p)) (constrained_intra_pred_flag p) ltac:(apply parses_bool).
  bp (flag (redundant_pic_cnt_present_flag p)) (redundant_pic_cnt_present_flag p) ltac:(apply parses_bool).
  unfold bindE at 1. rewrite (pps_extra_at sp (extension p) plists k Hext).
  assert (H1 : ((pic_init_qp_minus26 p <? - (26 + 6 * Z.of_N (bit_depth_luma_minus8 (chroma_info_ sp))))%Z || (25 <? pic_init_qp_minus26 p)%Z) = false) by lia.
  assert (H2 : ((pic_init_qs_minus26 p <? -26)%Z || (25 <? pic_init_qs_minus26 p)%Z) = false) by lia.
  assert (H3 : ((chroma_qp_index_offset p <? -12)%Z || (12 <? chroma_qp_index_offset p)%Z) = false) by lia.
  rewrite H1, H2, H3. destruct p. reflexivity.
Qed.

Theorem pps_roundtrip c p plists k : ctx_sps_ok c -> wf_pps c p plists ->
  pps_from_bits c (mk_src (enc_pps p plists ++ trailing_bits k) TEof) = OK p.
Proof.
  intros Hc Hw. unfold pps_from_bits. rewrite (pps_body_roundtrip c p plists k Hc Hw).
  unfold finish_rbsp, trailing_bits. cbn [bits tail].
  assert (Hu : unary1 (repeat false k) 0 = None) by (apply unary1_none; rewrite repeat_length; reflexivity).
  rewrite Hu. reflexivity.
Qed.
