(* Forward direction: a parser recovers the value from exactly its encoding, whatever follows. *)
From H264 Require Import Base.Prelude Base.Bits Model.BitReader Model.Parser Spec.Golomb
     Proofs.BitsLemmas Proofs.C07_proofs.

Definition Parses {E A} (p : PE E A) (bs : list bool) (v : A) : Prop :=
  forall rest tl, p (mk_src (bs ++ rest) tl) = OK (v, mk_src rest tl).

Lemma parses_bind {E A B} (p : PE E A) (k : A -> PE E B) b1 b2 a v :
  Parses p b1 a -> Parses (k a) b2 v -> Parses (bindE p k) (b1 ++ b2) v.
Proof. intros H1 H2 rest tl. unfold bindE. rewrite <- app_assoc, H1. apply H2. Qed.

Lemma parses_ret {E A} (v : A) : Parses (@retE E A v) [] v.
Proof. intros rest tl. reflexivity. Qed.

Lemma parses_mapE {E F A} (f : E -> F) (p : PE E A) bs v : Parses p bs v -> Parses (mapE f p) bs v.
Proof. intros H rest tl. unfold mapE. rewrite H. reflexivity. Qed.

Lemma parses_bool {E} (f : biterr -> E) nm b : Parses (liftE f (read_bool nm)) [b] b.
Proof. intros rest tl. reflexivity. Qed.

Lemma parses_u {E} (f : biterr -> E) w n nm v : n <= w -> v < 2 ^ n ->
  Parses (liftE f (read_u w n nm)) (to_bits (N.to_nat n) v) v.
Proof. intros Hw Hv rest tl. unfold liftE. rewrite read_u_roundtrip by assumption. reflexivity. Qed.

Lemma parses_ue {E} (f : biterr -> E) nm v : v < 4294967295 -> Parses (liftE f (read_ue nm)) (enc_ue v) v.
Proof. intros Hv rest tl. unfold liftE. rewrite read_ue_roundtrip by assumption. reflexivity. Qed.

Lemma parses_se {E} (f : biterr -> E) nm z : (- 2147483647 <= z <= 2147483647)%Z ->
  Parses (liftE f (read_se nm)) (enc_se z) z.
Proof. intros Hz rest tl. unfold liftE. rewrite read_se_roundtrip by assumption. reflexivity. Qed.

Lemma parses_liftO {E A} (x : out E A) a : x = OK a -> Parses (liftO x) [] a.
Proof. intros -> rest tl. reflexivity. Qed.

Lemma parses_repE {E A} (p : PE E A) (enc : A -> list bool) l :
  Forall (fun x => Parses p (enc x) x) l -> Parses (repE (length l) p) (concat (map enc l)) l.
Proof.
  induction l as [|x r IH]; intros H; cbn [length repE map concat]; [apply parses_ret|].
  inversion H as [|y ys Hx Hr]; subst.
  eapply parses_bind; [exact Hx|]. cbv beta.
  rewrite <- (app_nil_r (concat (map enc r))). eapply parses_bind; [apply IH; exact Hr|]. apply parses_ret.
Qed.

Lemma parses_cast {E A} (p : PE E A) b1 b2 v : b1 = b2 -> Parses p b1 v -> Parses p b2 v.
Proof. intros ->. auto. Qed.

(* one step through a bind whose first component is a primitive with a known encoding *)
Ltac pprim :=
  first [ apply parses_bool
        | apply parses_u; [lia|try lia; try assumption]
        | apply parses_ue; lia
        | apply parses_se; lia ].
Ltac pbind := eapply parses_bind; [|cbv beta].
