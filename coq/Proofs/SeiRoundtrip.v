(* C11: buffering_period and pic_timing recover every conforming payload (Annex D.1.2 / D.1.3). *)
From H264 Require Import Base.Prelude Base.Bits Model.BitReader Model.Parser Model.Sps Model.Context Model.Pps Model.Sei
     Spec.Golomb Spec.SyntaxSps Spec.SyntaxSei
     Proofs.BitsLemmas Proofs.C07_proofs Proofs.Parses Proofs.C14_proofs Proofs.SpsRoundtrip Proofs.PpsRoundtrip
     Proofs.Wp Proofs.SpsInv Proofs.PpsInv.
Local Open Scope N_scope.

Lemma parses_repE_map {E A X} (p : PE E A) (enc : X -> list bool) (f : X -> A) xs :
  Forall (fun x => Parses p (enc x) (f x)) xs -> Parses (repE (length xs) p) (concat (map enc xs)) (map f xs).
Proof.
  induction xs as [|x r IH]; intros H; cbn [length repE map concat]; [apply parses_ret|].
  inversion H as [|y ys Hx Hr]; subst.
  eapply parses_bind; [exact Hx|]. cbv beta.
  rewrite <- (app_nil_r (concat (map enc r))). eapply parses_bind; [apply IH; exact Hr|]. apply parses_ret.
Qed.

Definition hrd_ok (sp : sps) : Prop :=
  match nal_hrd_of sp with Some h => inv_hrd h | None => True end /\
  match vcl_hrd_of sp with Some h => inv_hrd h | None => True end.

Lemma inv_sps_hrd_ok sp : inv_sps sp -> hrd_ok sp.
Proof.
  intros Hi. destruct Hi as (_ & _ & _ & _ & _ & _ & _ & _ & _ & _ & _ & Hv).
  unfold hrd_ok, nal_hrd_of, vcl_hrd_of. destruct (vui_parameters_ sp) as [v|]; [|split; exact I].
  destruct Hv as (H1 & H2 & _). split; assumption.
Qed.

(* ---- buffering_period ---- *)
Lemma parses_bp_hrd h l : match h with Some p => inv_hrd p | None => True end -> wf_bp_hrd h l ->
  Parses (bp_hrd h) (enc_bp_hrd h l) l.
Proof.
  intros Hi Hwf. unfold bp_hrd, enc_bp_hrd, wf_bp_hrd in *. destruct h as [p|]; destruct l as [ds|]; try contradiction.
  - destruct Hwf as [Hlen Hall]. destruct Hi as (_ & Hw & _).
    pcast (concat (map (fun d => u (N.to_nat (initial_cpb_removal_delay_length_minus1 p + 1)) (fst d) ++
                                 u (N.to_nat (initial_cpb_removal_delay_length_minus1 p + 1)) (snd d)) ds) ++ []).
    eapply parses_bind; [|cbv beta; apply parses_ret].
    unfold read_cpb_removal_delay_list. rewrite <- Hlen.
    apply (parses_repE _ (fun d => u (N.to_nat (initial_cpb_removal_delay_length_minus1 p + 1)) (fst d) ++
                                   u (N.to_nat (initial_cpb_removal_delay_length_minus1 p + 1)) (snd d))).
    eapply Forall_impl; [|exact Hall]. intros [a b] [Ha Hb]. cbn [fst snd] in *. unfold rb.
    eapply parses_bind; [apply parses_u; [lia|exact Ha]|]. cbv beta.
    pcast (u (N.to_nat (initial_cpb_removal_delay_length_minus1 p + 1)) b ++ []).
    eapply parses_bind; [apply parses_u; [lia|exact Hb]|]. cbv beta. apply parses_ret.
  - apply parses_ret.
Qed.

Theorem bp_roundtrip c sp b payload pad :
  ctx_sps_ok c -> sps_by_id c (seq_parameter_set_id sp) = Some sp -> wf_bp sp b ->
  bits_of_bytes payload = enc_bp sp b ++ pad -> sei_pad_ok pad ->
  buffering_period_read c payload = OK b.
Proof.
  intros Hc Hsp [Hn Hv] Hbits Hpad. unfold buffering_period_read. rewrite Hbits. unfold enc_bp.
  pose proof (Hc _ _ Hsp) as Hi. pose proof (inv_sps_hrd_ok sp Hi) as [Hon Hov].
  assert (Hid : seq_parameter_set_id sp < 32) by (destruct Hi as (_ & _ & _ & H & _); exact H).
  rewrite <- !app_assoc. unfold rb.
  bp (ue (seq_parameter_set_id sp)) (seq_parameter_set_id sp) ltac:(apply parses_ue; lia).
  unfold seq_param_set_id_from_u32. destruct (N.ltb_spec 31 (seq_parameter_set_id sp)); [lia|].
  rewrite Hsp. fold (nal_hrd_of sp). fold (vcl_hrd_of sp).
  bp (enc_bp_hrd (nal_hrd_of sp) (nal_hrd_bp b)) (nal_hrd_bp b) ltac:(apply parses_bp_hrd; assumption).
  bp (enc_bp_hrd (vcl_hrd_of sp) (vcl_hrd_bp b)) (vcl_hrd_bp b) ltac:(apply parses_bp_hrd; assumption).
  unfold retE.
  assert (Hf : finish_sei_payload (mk_src pad TEof) = OK tt).
  { apply finish_sei_ok_iff; [reflexivity|]. exact Hpad. }
  rewrite Hf. destruct b. reflexivity.
Qed.

(* ---- pic_timing ---- *)
Lemma sign_extend_roundtrip tol z : 0 < tol ->
  (- 2 ^ (Z.of_N tol - 1) <= z < 2 ^ (Z.of_N tol - 1))%Z ->
  sign_extend tol (Z.to_N (z mod 2 ^ Z.of_N tol)) = z /\ Z.to_N (z mod 2 ^ Z.of_N tol) < 2 ^ tol.
Proof.
  intros Ht Hz. set (P := (2 ^ (Z.of_N tol - 1))%Z) in *.
  assert (HP : (0 < P)%Z) by (apply Z.pow_pos_nonneg; lia).
  assert (H2 : (2 ^ Z.of_N tol = 2 * P)%Z).
  { unfold P. replace (Z.of_N tol) with (Z.succ (Z.of_N tol - 1)) at 1 by lia. apply Z.pow_succ_r. lia. }
  assert (HN : Z.of_N (2 ^ tol) = (2 * P)%Z) by (rewrite N2Z.inj_pow; exact H2).
  assert (HN1 : Z.of_N (2 ^ (tol - 1)) = P).
  { rewrite N2Z.inj_pow. unfold P. f_equal. lia. }
  unfold sign_extend. destruct (N.eqb_spec tol 0); [lia|]. rewrite H2.
  destruct (Z.lt_ge_cases z 0) as [Hneg|Hpos].
  - assert (Hm : (z mod (2 * P) = z + 2 * P)%Z).
    { symmetry. apply (Z.mod_unique_pos _ _ (-1)); lia. }
    rewrite Hm. split.
    + destruct (N.ltb_spec (Z.to_N (z + 2 * P)) (2 ^ (tol - 1))) as [Hlt|Hge].
      * apply N2Z.inj_lt in Hlt. rewrite HN1, Z2N.id in Hlt by lia. lia.
      * rewrite Z2N.id by lia. lia.
    + apply N2Z.inj_lt. rewrite HN, Z2N.id by lia. lia.
  - rewrite Z.mod_small by lia. split.
    + destruct (N.ltb_spec (Z.to_N z) (2 ^ (tol - 1))) as [Hlt|Hge].
      * apply Z2N.id. lia.
      * apply N2Z.inj_le in Hge. rewrite HN1, Z2N.id in Hge by lia. lia.
    + apply N2Z.inj_lt. rewrite HN, Z2N.id by lia. lia.
Qed.

Lemma model_tol sp :
  match vui_parameters_ sp with
  | Some v => match nal_hrd_parameters v with
              | Some h => time_offset_length h
              | None => match vcl_hrd_parameters v with Some h => time_offset_length h | None => 24 end
              end
  | None => 24
  end = time_offset_length_of sp.
Proof.
  unfold time_offset_length_of, delays_hrd_of, nal_hrd_of, vcl_hrd_of.
  destruct (vui_parameters_ sp) as [v|]; [|reflexivity].
  destruct (nal_hrd_parameters v); [reflexivity|]. destruct (vcl_hrd_parameters v); reflexivity.
Qed.

Lemma tol_bound sp : hrd_ok sp -> time_offset_length_of sp <= 32.
Proof.
  intros [Hn Hv]. unfold time_offset_length_of, delays_hrd_of.
  destruct (nal_hrd_of sp) as [h|]; [destruct Hn as (_ & _ & _ & _ & H); lia|].
  destruct (vcl_hrd_of sp) as [h|]; [destruct Hv as (_ & _ & _ & _ & H); lia|lia].
Qed.

Ltac pu n := apply (parses_u _ _ n); [lia|try (change (2 ^ n) with (N.pow 2 n)); try lia; try assumption].

Lemma parses_smh full t : wf_smh full t ->
  Parses (if full then
            bindE (rp (read_u 8 6 "seconds_value")) (fun s => bindE (rp (read_u 8 6 "minutes_value")) (fun m =>
            bindE (rp (read_u 8 5 "hours_value")) (fun h => retE (SmhSMH s m h))))
          else
            bindE (rp (read_bool "seconds_flag")) (fun sf =>
            if sf then
              bindE (rp (read_u 8 6 "seconds_value")) (fun s =>
              bindE (rp (read_bool "minutes_flag")) (fun mf =>
              if mf then
                bindE (rp (read_u 8 6 "minutes_value")) (fun m =>
                bindE (rp (read_bool "hours_flag")) (fun hf =>
                if hf then bindE (rp (read_u 8 5 "hours_value")) (fun h => retE (SmhSMH s m h))
                else retE (SmhSM s m)))
              else retE (SmhS s)))
            else retE SmhNone)) (enc_smh full t) t.
Proof.
  intros H. unfold enc_smh, rp.
  assert (P6 : forall nm v, v < 64 -> Parses (liftE PtRbspError (read_u 8 6 nm)) (u 6 v) v).
  { intros nm v Hv. apply (parses_u _ 8 6); [lia|change (2 ^ 6) with 64; exact Hv]. }
  assert (P5 : forall nm v, v < 32 -> Parses (liftE PtRbspError (read_u 8 5 nm)) (u 5 v) v).
  { intros nm v Hv. apply (parses_u _ 8 5); [lia|change (2 ^ 5) with 32; exact Hv]. }
  destruct t as [|s|s m|s m h]; cbn [wf_smh] in H.
  - subst full. pcast (flag false ++ []). eapply parses_bind; [apply parses_bool|]. cbv beta iota. apply parses_ret.
  - destruct H as [-> Hs]. eapply parses_bind; [apply parses_bool|]. cbv beta iota.
    eapply parses_bind; [apply P6; exact Hs|]. cbv beta.
    pcast (flag false ++ []). eapply parses_bind; [apply parses_bool|]. cbv beta iota. apply parses_ret.
  - destruct H as (-> & Hs & Hm). eapply parses_bind; [apply parses_bool|]. cbv beta iota.
    eapply parses_bind; [apply P6; exact Hs|]. cbv beta.
    eapply parses_bind; [apply parses_bool|]. cbv beta iota.
    eapply parses_bind; [apply P6; exact Hm|]. cbv beta.
    pcast (flag false ++ []). eapply parses_bind; [apply parses_bool|]. cbv beta iota. apply parses_ret.
  - destruct H as (Hs & Hm & Hh). destruct full.
    + eapply parses_bind; [apply P6; exact Hs|]. cbv beta.
      eapply parses_bind; [apply P6; exact Hm|]. cbv beta.
      pcast (u 5 h ++ []). eapply parses_bind; [apply P5; exact Hh|]. cbv beta. apply parses_ret.
    + eapply parses_bind; [apply parses_bool|]. cbv beta iota.
      eapply parses_bind; [apply P6; exact Hs|]. cbv beta.
      eapply parses_bind; [apply parses_bool|]. cbv beta iota.
      eapply parses_bind; [apply P6; exact Hm|]. cbv beta.
      eapply parses_bind; [apply parses_bool|]. cbv beta iota.
      pcast (u 5 h ++ []). eapply parses_bind; [apply P5; exact Hh|]. cbv beta. apply parses_ret.
Qed.

Lemma parses_time_offset tol o : tol <= 32 -> wf_time_offset tol o ->
  Parses (if tol =? 0 then retE None
          else bindE (rp (read_u 32 tol "time_offset_length")) (fun raw => retE (Some (sign_extend tol raw))))
         (enc_time_offset tol o) o.
Proof.
  intros Ht H. unfold enc_time_offset, wf_time_offset in *. destruct o as [z|].
  - destruct H as [Hpos Hz]. destruct (N.eqb_spec tol 0); [lia|].
    destruct (sign_extend_roundtrip tol z Hpos Hz) as [Hse Hlt].
    pcast (u (N.to_nat tol) (Z.to_N (z mod 2 ^ Z.of_N tol)) ++ []). unfold rp.
    eapply parses_bind; [apply parses_u; [lia|exact Hlt]|]. cbv beta. rewrite Hse. apply parses_ret.
  - subst tol. change (0 =? 0) with true. cbv iota. apply parses_ret.
Qed.

Lemma parses_ct sp full c : hrd_ok sp -> wf_ct sp full c ->
  Parses (clock_timestamp_read sp) (enc_ct sp full c) c.
Proof.
  intros Hok (Hct & Hcn & Hnf & Hsmh & Hoff). unfold clock_timestamp_read, enc_ct. rewrite model_tol. unfold rp.
  eapply parses_bind; [apply (parses_u _ 8 2); [lia|change (2 ^ 2) with 4; exact Hct]|]. cbv beta.
  eapply parses_bind; [apply parses_bool|]. cbv beta.
  eapply parses_bind; [apply (parses_u _ 8 5); [lia|change (2 ^ 5) with 32; exact Hcn]|]. cbv beta.
  eapply parses_bind; [apply parses_bool|]. cbv beta.
  eapply parses_bind; [apply parses_bool|]. cbv beta.
  eapply parses_bind; [apply parses_bool|]. cbv beta.
  eapply parses_bind; [apply (parses_u _ 8 8); [lia|change (2 ^ 8) with 256; exact Hnf]|]. cbv beta.
  eapply parses_bind; [apply (parses_smh full (smh c) Hsmh)|]. cbv beta.
  pcast (enc_time_offset (time_offset_length_of sp) (time_offset c) ++ []).
  eapply parses_bind; [apply parses_time_offset; [apply tol_bound; exact Hok|exact Hoff]|]. cbv beta.
  destruct c. apply parses_ret.
Qed.

Lemma parses_ct_opt sp e : hrd_ok sp -> match fst e with Some c => wf_ct sp (snd e) c | None => True end ->
  Parses (bindE (rp (read_bool "clock_timestamp_flag")) (fun f =>
            if f then bindE (clock_timestamp_read sp) (fun c => retE (Some c)) else retE None))
         (enc_ct_opt sp e) (fst e).
Proof.
  intros Hok H. destruct e as [[c|] full]; cbn [fst snd enc_ct_opt] in *; unfold rp.
  - eapply parses_bind; [apply parses_bool|]. cbv beta iota.
    pcast (enc_ct sp full c ++ []). eapply parses_bind; [apply parses_ct; assumption|]. cbv beta. apply parses_ret.
  - pcast (flag false ++ []). eapply parses_bind; [apply parses_bool|]. cbv beta iota. apply parses_ret.
Qed.

Theorem pt_roundtrip sp t fulls payload pad :
  inv_sps sp -> wf_pt sp t fulls ->
  bits_of_bytes payload = enc_pt sp t fulls ++ pad -> sei_pad_ok pad ->
  pic_timing_read sp payload = OK t.
Proof.
  intros Hi [Hd Hps] Hbits Hpad. pose proof (inv_sps_hrd_ok sp Hi) as Hok.
  unfold pic_timing_read. rewrite Hbits. unfold enc_pt. rewrite <- app_assoc.
  (* delays *)
  assert (Hdel : Parses
     (match vui_parameters_ sp with
      | Some v =>
        match (match nal_hrd_parameters v with Some h => Some h | None => vcl_hrd_parameters v end) with
        | Some h =>
            bindE (rp (read_u 32 (cpb_removal_delay_length_minus1 h + 1) "cpb_removal_delay")) (fun a =>
            bindE (rp (read_u 32 (dpb_output_delay_length_minus1 h + 1) "dpb_output_delay")) (fun b => retE (Some (a, b))))
        | None => retE None
        end
      | None => retE None
      end)
     (match delays_hrd_of sp, pt_delays t with
      | Some h, Some (a, b) => u (N.to_nat (cpb_removal_delay_length_minus1 h + 1)) a ++ u (N.to_nat (dpb_output_delay_length_minus1 h + 1)) b
      | _, _ => []
      end) (pt_delays t)).
  { destruct Hok as [Hn Hv]. unfold delays_hrd_of, nal_hrd_of, vcl_hrd_of in *.
    destruct (vui_parameters_ sp) as [v|].
    - assert (Hh : match (match nal_hrd_parameters v with Some h => Some h | None => vcl_hrd_parameters v end) with
                   | Some h => inv_hrd h | None => True end).
      { destruct (nal_hrd_parameters v); [exact Hn|exact Hv]. }
      destruct (match nal_hrd_parameters v with Some h => Some h | None => vcl_hrd_parameters v end) as [h|].
      + destruct (pt_delays t) as [[a b]|]; [|contradiction]. destruct Hd as [Ha Hb].
        destruct Hh as (_ & _ & Hc & Hdp & _). unfold rp.
        eapply parses_bind; [apply parses_u; [lia|exact Ha]|]. cbv beta.
        pcast (u (N.to_nat (dpb_output_delay_length_minus1 h + 1)) b ++ []).
        eapply parses_bind; [apply parses_u; [lia|exact Hb]|]. cbv beta. apply parses_ret.
      + destruct (pt_delays t) as [[a b]|]; [contradiction|]. apply parses_ret.
    - destruct (pt_delays t) as [[a b]|]; [contradiction|]. apply parses_ret. }
  rewrite (bind_parses _ _ _ _ _ _ Hdel). cbv beta.
  assert (Hpsp : Parses
     (match vui_parameters_ sp with
      | Some v =>
        if pic_struct_present_flag v then
          bindE (rp (read_u 8 4 "pic_struct")) (fun id =>
          if 15 <? id then failE (PtInvalidPicStructId id) else
          bindE (repE (num_clock_timestamps id)
                   (bindE (rp (read_bool "clock_timestamp_flag")) (fun f =>
                    if f then bindE (clock_timestamp_read sp) (fun c => retE (Some c)) else retE None)))
                (fun cts => retE (Some (id, cts))))
        else retE None
      | None => retE None
      end)
     (match pt_pic_struct t with
      | Some (id, cts) => u 4 id ++ concat (map (enc_ct_opt sp) (combine cts fulls))
      | None => []
      end) (pt_pic_struct t)).
  { unfold pic_struct_present in Hps.
    assert (Hnone : pt_pic_struct t = None -> Parses (@retE pterr _ (@None (N * list (option clock_timestamp)))) [] (pt_pic_struct t)).
    { intros ->. apply parses_ret. }
    destruct (vui_parameters_ sp) as [v|]; [|rewrite Hps; apply parses_ret].
    destruct (pic_struct_present_flag v); [|rewrite Hps; apply parses_ret].
    destruct Hps as (id & cts & -> & Hid & Hlen & Hfl & Hall). unfold rp.
    eapply parses_bind; [apply (parses_u _ 8 4); [lia|change (2 ^ 4) with 16; lia]|]. cbv beta.
    destruct (N.ltb_spec 15 id); [lia|].
    pcast (concat (map (enc_ct_opt sp) (combine cts fulls)) ++ []).
    eapply (parses_bind _ _ _ [] cts); [|apply parses_ret].
    assert (Hcl : length (combine cts fulls) = num_clock_timestamps id) by (rewrite combine_length; lia).
    rewrite <- Hcl.
    assert (Hmf : map fst (combine cts fulls) = cts).
    { clear -Hfl. revert fulls Hfl. induction cts as [|x r IH]; intros [|y s] H; cbn in *; try reflexivity; try discriminate.
      rewrite IH by lia. reflexivity. }
    assert (Hrep : Parses (repE (length (combine cts fulls))
                     (bindE (liftE PtRbspError (read_bool "clock_timestamp_flag")) (fun f =>
                      if f then bindE (clock_timestamp_read sp) (fun c => retE (Some c)) else retE None)))
                   (concat (map (enc_ct_opt sp) (combine cts fulls))) (map fst (combine cts fulls))).
    { apply (parses_repE_map _ (enc_ct_opt sp) fst).
      eapply Forall_impl; [|exact Hall]. intros e He. apply parses_ct_opt; assumption. }
    rewrite Hmf in Hrep. exact Hrep. }
  rewrite (bind_parses _ _ _ _ _ _ Hpsp). cbv beta. unfold retE.
  assert (Hf : finish_sei_payload (mk_src pad TEof) = OK tt).
  { apply finish_sei_ok_iff; [reflexivity|]. exact Hpad. }
  rewrite Hf. destruct t. reflexivity.
Qed.
