(* Slice header parser: never aborts under a context of accepted parameter sets; accepted headers satisfy the invariants. *)
From H264 Require Import Base.Prelude Base.Bits Model.BitReader Model.Parser Model.Nal Model.Sps Model.SpsDerived Model.Context Model.Pps
     Model.Slice Spec.Golomb Proofs.BitsLemmas Proofs.C07_proofs Proofs.Wp Proofs.SpsInv Proofs.PpsInv.
Local Open Scope N_scope.

Definition ctx_ok (c : context) : Prop :=
  ctx_sps_ok c /\ (forall id p, pps_by_id c id = Some p ->
                     num_ref_idx_l0_default_active_minus1 p <= 31 /\ (-26 <= pic_init_qs_minus26 p <= 25)%Z).

Lemma wp_sl_read_num_ref_idx nm s (Phi : N -> src -> Prop) :
  (forall v s', v <= 31 -> consumes s s' -> Phi v s') -> wp (sl_read_num_ref_idx nm s) Phi.
Proof. intros Hk. unfold sl_read_num_ref_idx, rs. wp_go. apply wp_ret. apply Hk; [lia|wp_done]. Qed.

Lemma enc_ue_length_pos v : (1 <= length (enc_ue v))%nat.
Proof. pose proof (enc_ue_nonempty v). destruct (enc_ue v); [contradiction|cbn; lia]. Qed.

Lemma wp_read_mods_loop fuel : forall acc s (Phi : list modification -> src -> Prop),
  (length (bits s) < fuel)%nat ->
  (forall l s', consumes s s' -> Phi l s') -> wp (read_mods_loop fuel acc s) Phi.
Proof.
  induction fuel as [|f IH]; intros acc s Phi Hf Hk; [lia|]. cbn [read_mods_loop]. unfold rs.
  apply wp_bind. apply wp_read_ue. intros idc s1 _ Hb1 Hl1. cbv beta.
  assert (Hlen1 : (length (bits s1) < length (bits s))%nat).
  { rewrite Hb1, app_length. pose proof (enc_ue_length_pos idc). lia. }
  destruct idc as [|[[p|p|]|[p|p|]|]]; try apply wp_fail.
  - apply wp_bind. apply wp_read_ue. intros v s2 _ Hb2 Hl2. cbv beta.
    apply IH; [rewrite Hb2, app_length in Hlen1; lia|]. intros l s' Hc. apply Hk. wp_done.
  - apply wp_ret. apply Hk. wp_done.
  - apply wp_bind. apply wp_read_ue. intros v s2 _ Hb2 Hl2. cbv beta.
    apply IH; [rewrite Hb2, app_length in Hlen1; lia|]. intros l s' Hc. apply Hk. wp_done.
  - apply wp_bind. apply wp_read_ue. intros v s2 _ Hb2 Hl2. cbv beta.
    apply IH; [rewrite Hb2, app_length in Hlen1; lia|]. intros l s' Hc. apply Hk. wp_done.
Qed.

Lemma wp_read_mod_list s (Phi : list modification -> src -> Prop) :
  (forall l s', consumes s s' -> Phi l s') -> wp (read_mod_list s) Phi.
Proof.
  intros Hk. unfold read_mod_list, rs. apply wp_bind. apply wp_read_bool. intros f s1 Hb Hl. cbv beta.
  destruct f; cbn [negb].
  - apply wp_read_mods_loop; [lia|]. intros l s' Hc. apply Hk. wp_done.
  - apply wp_ret. apply Hk. wp_done.
Qed.

Lemma wp_ref_pic_list_mods fam s (Phi : ref_pic_list_mods -> src -> Prop) :
  (forall l s', consumes s s' -> Phi l s') -> wp (ref_pic_list_mods_read fam s) Phi.
Proof.
  intros Hk. unfold ref_pic_list_mods_read. destruct fam.
  - apply wp_bind. apply wp_read_mod_list. intros a s1 Hc1. cbv beta. apply wp_ret. apply Hk. exact Hc1.
  - apply wp_bind. apply wp_read_mod_list. intros a s1 Hc1. cbv beta.
    apply wp_bind. apply wp_read_mod_list. intros b s2 Hc2. cbv beta. apply wp_ret. apply Hk. wp_done.
  - apply wp_ret. apply Hk. apply consumes_refl.
  - apply wp_bind. apply wp_read_mod_list. intros a s1 Hc1. cbv beta. apply wp_ret. apply Hk. exact Hc1.
  - apply wp_ret. apply Hk. apply consumes_refl.
Qed.

Lemma wp_read_one_weight mono s (Phi : option pred_weight * option (list pred_weight) -> src -> Prop) :
  (forall r s', consumes s s' -> Phi r s') -> wp (read_one_weight mono s) Phi.
Proof.
  intros Hk. unfold read_one_weight, rs.
  wp_go; repeat (apply wp_ret; cbv beta); try (apply wp_bind); wp_go; repeat (apply wp_ret; cbv beta);
    apply Hk; wp_done.
Qed.

Lemma wp_pred_weight_table st pp sp nra s (Phi : pred_weight_table -> src -> Prop) :
  num_ref_idx_l0_default_active_minus1 pp <= 31 ->
  match nra with Some (NraP a) => a <= 31 | Some (NraB a _) => a <= 31 | None => True end ->
  (forall t s', consumes s s' -> Phi t s') -> wp (pred_weight_table_read st pp sp nra s) Phi.
Proof.
  intros Hpp Hnra Hk. unfold pred_weight_table_read, rs.
  apply wp_bind. apply wp_read_ue. intros ld s1 _ Hb1 Hl1. cbv beta.
  apply wp_bind.
  set (mono := if separate_colour_plane_flag (chroma_info_ sp) then true else chroma_format_eqb (chroma_format_ (chroma_info_ sp)) Monochrome).
  assert (Hcd : wp ((if mono then retE None else bindE (liftE SlRbspError (read_ue "chroma_log2_weight_denom")) (fun v => retE (Some v))) s1)
                   (fun _ s2 => consumes s1 s2)).
  { destruct mono; [apply wp_ret; apply consumes_refl|].
    apply wp_bind. apply wp_read_ue. intros v s2 _ Hb2 Hl2. cbv beta. apply wp_ret. eapply consumes_step; eassumption. }
  eapply wp_mono; [exact Hcd|]. intros cd s2 Hc2. cbv beta.
  set (l0 := match nra with Some (NraP a) => a | Some (NraB a _) => a | None => num_ref_idx_l0_default_active_minus1 pp end).
  assert (Hl0 : l0 <= 31) by (unfold l0; destruct nra as [[a|a b]|]; assumption).
  apply wp_bind. unfold add32. destruct (N.ltb_spec (l0 + 1) two32) as [|Hge]; [|unfold two32 in Hge; lia].
  apply (wp_liftO_ok _ (l0 + 1)); [reflexivity|].
  apply wp_bind. apply (wp_repE _ (fun _ => True)).
  - intros s3 Hc3. apply wp_read_one_weight. intros r s4 Hc4. split; [exact I|exact Hc4].
  - intros ws s5 _ _ Hc5. cbv beta. destruct (family_eqb (family st) FamB); [apply wp_fail|].
    apply wp_ret. apply Hk. wp_done.
Qed.

Lemma wp_read_mmco_loop fuel : forall acc s (Phi : list mmco -> src -> Prop),
  (length (bits s) < fuel)%nat ->
  (forall l s', consumes s s' -> Phi l s') -> wp (read_mmco_loop fuel acc s) Phi.
Proof.
  induction fuel as [|f IH]; intros acc s Phi Hf Hk; [lia|]. cbn [read_mmco_loop]. unfold rs.
  apply wp_bind. apply wp_read_ue. intros op s1 _ Hb1 Hl1. cbv beta.
  assert (Hlen1 : (length (bits s1) < length (bits s))%nat).
  { rewrite Hb1, app_length. pose proof (enc_ue_length_pos op). lia. }
  destruct op as [|[[[p|p|]|[p|p|]|]|[[p|p|]|[p|p|]|]|]]; try apply wp_fail.
  - apply wp_ret. apply Hk. wp_done.
  - (* 5 *) apply IH; [lia|]. intros l s' Hc. apply Hk. wp_done.
  - (* 3 *) apply wp_bind. apply wp_read_ue. intros d s2 _ Hb2 Hl2. cbv beta.
    apply wp_bind. apply wp_read_ue. intros i s3 _ Hb3 Hl3. cbv beta.
    apply IH; [rewrite Hb2, app_length, Hb3, app_length in Hlen1; lia|]. intros l s' Hc. apply Hk. wp_done.
  - (* 6 *) apply wp_bind. apply wp_read_ue. intros i s2 _ Hb2 Hl2. cbv beta.
    apply IH; [rewrite Hb2, app_length in Hlen1; lia|]. intros l s' Hc. apply Hk. wp_done.
  - (* 4 *) apply wp_bind. apply wp_read_ue. intros i s2 _ Hb2 Hl2. cbv beta.
    apply IH; [rewrite Hb2, app_length in Hlen1; lia|]. intros l s' Hc. apply Hk. wp_done.
  - (* 2 *) apply wp_bind. apply wp_read_ue. intros i s2 _ Hb2 Hl2. cbv beta.
    apply IH; [rewrite Hb2, app_length in Hlen1; lia|]. intros l s' Hc. apply Hk. wp_done.
  - (* 1 *) apply wp_bind. apply wp_read_ue. intros i s2 _ Hb2 Hl2. cbv beta.
    apply IH; [rewrite Hb2, app_length in Hlen1; lia|]. intros l s' Hc. apply Hk. wp_done.
Qed.

Lemma wp_dec_ref_pic_marking ut s (Phi : dec_ref_pic_marking -> src -> Prop) :
  (forall m s', consumes s s' -> Phi m s') -> wp (dec_ref_pic_marking_read ut s) Phi.
Proof.
  intros Hk. unfold dec_ref_pic_marking_read, rs. destruct (ut =? 5).
  - wp_go. apply wp_ret. apply Hk. wp_done.
  - apply wp_bind. apply wp_read_bool. intros ad s1 Hb1 Hl1. cbv beta. destruct ad.
    + apply wp_bind. apply wp_read_mmco_loop; [lia|]. intros ops s2 Hc2. cbv beta. apply wp_ret. apply Hk. wp_done.
    + apply wp_ret. apply Hk. wp_done.
Qed.

Definition inv_slice (c : context) (h : slice_header) (sid pid : N) : Prop :=
  exists pp sp,
    pps_by_id c pid = Some pp /\ sps_by_id c sid = Some sp /\ pps_seq_parameter_set_id pp = sid /\
    frame_num h < 2 ^ (log2_max_frame_num_minus4 sp + 4) /\
    match pic_order_cnt_lsb h, pic_order_cnt_ sp with
    | Some (PlFrame l), PocTypeZero k | Some (PlFieldsAbsolute l _), PocTypeZero k => l < 2 ^ (k + 4)
    | _, _ => True
    end /\
    match sh_num_ref_idx_active h with
    | Some (NraP a) => a <= 31 | Some (NraB a b) => a <= 31 /\ b <= 31 | None => True
    end /\
    match slice_qs h with Some q => q <= 51 | None => True end /\
    (slice_qp_delta h <= 51)%Z /\ disable_deblocking_filter_idc h <= 6 /\
    match colour_plane h with Some p => p <= 2 | None => True end.

Lemma wp_slice_header c hdr s (Phi : slice_header * N * N -> src -> Prop) : ctx_ok c ->
  (forall r s', inv_slice c (fst (fst r)) (snd (fst r)) (snd r) -> consumes s s' -> Phi r s') ->
  wp (slice_header_read c hdr s) Phi.
Proof.
  intros [Hsps Hpps] Hk. unfold slice_header_read, rs.
  apply wp_bind. apply wp_read_ue. intros fmb s1 _ Hb1 Hl1. cbv beta.
  apply wp_bind. apply wp_read_ue. intros stv s2 _ Hb2 Hl2. cbv beta.
  destruct (slice_type_from_id stv) as [st|]; [|apply wp_fail].
  apply wp_bind. apply wp_read_ue. intros ppid s3 _ Hb3 Hl3. cbv beta.
  unfold pic_param_set_id_from_u32. destruct (255 <? ppid) eqn:Epp; [apply wp_fail|].
  destruct (pps_by_id c ppid) as [pp|] eqn:Ep; [|apply wp_fail].
  destruct (sps_by_id c (pps_seq_parameter_set_id pp)) as [sp|] eqn:Es; [|apply wp_fail].
  pose proof (Hsps _ _ Es) as Hi. destruct (Hpps _ _ Ep) as [Hppl0 Hppqs].
  pose proof Hi as (_ & _ & _ & _ & _ & Hl2max & _).
  (* colour plane *)
  apply wp_bind.
  assert (Hcp : wp ((if separate_colour_plane_flag (chroma_info_ sp)
                     then bindE (liftE SlRbspError (read_u 8 2 "colour_plane_id"))
                            (fun v => if 2 <? v then failE (ColourPlaneError v) else retE (Some v))
                     else retE None) s3)
                   (fun cp s4 => match cp with Some p => p <= 2 | None => True end /\ consumes s3 s4)).
  { destruct (separate_colour_plane_flag (chroma_info_ sp)).
    - apply wp_bind. apply wp_read_u. intros v s4 _ _ Hb4 Hl4. cbv beta.
      destruct (2 <? v) eqn:E; [apply wp_fail|]. apply wp_ret. split; [lia|eapply consumes_step; eassumption].
    - apply wp_ret. split; [exact I|apply consumes_refl]. }
  eapply wp_mono; [exact Hcp|]. clear Hcp. intros cp s4 [Hcpv Hc4]. cbv beta.
  (* frame_num *)
  apply wp_bind. unfold sps_help, log2_max_frame_num.
  destruct (N.ltb_spec (log2_max_frame_num_minus4 sp + 4) 256) as [_|Hge]; [|lia]. cbn [wp].
  apply wp_bind. apply wp_read_u. intros fn s5 _ Hfn Hb5 Hl5. cbv beta.
  (* field_pic *)
  apply wp_bind.
  assert (Hfp : wp ((match frame_mbs_flags_ sp with
                     | Fields _ =>
                         bindE (liftE SlRbspError (read_bool "field_pic_flag")) (fun f =>
                           if f then bindE (liftE SlRbspError (read_bool "bottom_field_flag")) (fun b => retE (if b then FpBottom else FpTop))
                           else retE FpFrame)
                     | Frames => retE FpFrame
                     end) s5) (fun _ s6 => consumes s5 s6)).
  { destruct (frame_mbs_flags_ sp).
    - apply wp_ret. apply consumes_refl.
    - apply wp_bind. apply wp_read_bool. intros f s6 Hb6 Hl6. cbv beta. destruct f.
      + apply wp_bind. apply wp_read_bool. intros b s7 Hb7 Hl7. cbv beta. apply wp_ret. wp_done.
      + apply wp_ret. wp_done. }
  eapply wp_mono; [exact Hfp|]. clear Hfp. intros fp s6 Hc6. cbv beta.
  (* idr_pic_id *)
  apply wp_bind.
  assert (Hidr : wp ((if nal_unit_type_id hdr =? 5
                      then bindE (liftE SlRbspError (read_ue "idr_pic_id")) (fun v => retE (Some v))
                      else retE None) s6) (fun _ s7 => consumes s6 s7)).
  { destruct (nal_unit_type_id hdr =? 5).
    - apply wp_bind. apply wp_read_ue. intros v s7 _ Hb7 Hl7. cbv beta. apply wp_ret. wp_done.
    - apply wp_ret. apply consumes_refl. }
  eapply wp_mono; [exact Hidr|]. clear Hidr. intros idr s7 Hc7. cbv beta.
  (* pic order count *)
  apply wp_bind.
  set (is_frame := match fp with FpFrame => true | _ => false end).
  assert (Hpoc : wp ((match pic_order_cnt_ sp with
                      | PocTypeZero l =>
                          bindE (liftE SlRbspError (read_u 32 (l + 4) "pic_order_cnt_lsb")) (fun lsb =>
                            if bottom_field_pic_order_in_frame_present_flag pp && is_frame
                            then bindE (liftE SlRbspError (read_se "delta_pic_order_cnt_bottom")) (fun d => retE (Some (PlFieldsAbsolute lsb d)))
                            else retE (Some (PlFrame lsb)))
                      | PocTypeOne az _ _ _ =>
                          if az then retE (Some (PlFieldsDelta 0 0))
                          else bindE (liftE SlRbspError (read_se "delta_pic_order_cnt[0]")) (fun d0 =>
                                 if bottom_field_pic_order_in_frame_present_flag pp && is_frame
                                 then bindE (liftE SlRbspError (read_se "delta_pic_order_cnt[1]")) (fun d1 => retE (Some (PlFieldsDelta d0 d1)))
                                 else retE (Some (PlFieldsDelta d0 0)))
                      | PocTypeTwo => retE None
                      end) s7)
                    (fun poc s8 => match poc, pic_order_cnt_ sp with
                                   | Some (PlFrame l), PocTypeZero k | Some (PlFieldsAbsolute l _), PocTypeZero k => l < 2 ^ (k + 4)
                                   | _, _ => True end /\ consumes s7 s8)).
  { destruct (pic_order_cnt_ sp) as [l|az a b o|].
    - apply wp_bind. apply wp_read_u. intros lsb s8 _ Hlsb Hb8 Hl8. cbv beta.
      destruct (bottom_field_pic_order_in_frame_present_flag pp && is_frame).
      + apply wp_bind. apply wp_read_se. intros d s9 _ Hex Hl9. cbv beta. apply wp_ret. split; [exact Hlsb|wp_done].
      + apply wp_ret. split; [exact Hlsb|wp_done].
    - destruct az.
      + apply wp_ret. split; [exact I|apply consumes_refl].
      + apply wp_bind. apply wp_read_se. intros d0 s8 _ Hex8 Hl8. cbv beta.
        destruct (bottom_field_pic_order_in_frame_present_flag pp && is_frame).
        * apply wp_bind. apply wp_read_se. intros d1 s9 _ Hex9 Hl9. cbv beta. apply wp_ret. split; [exact I|wp_done].
        * apply wp_ret. split; [exact I|wp_done].
    - apply wp_ret. split; [exact I|apply consumes_refl]. }
  eapply wp_mono; [exact Hpoc|]. clear Hpoc. intros poc s8 [Hpocv Hc8]. cbv beta.
  (* redundant_pic_cnt, direct flag *)
  apply wp_bind.
  assert (Hred : wp ((if redundant_pic_cnt_present_flag pp
                      then bindE (liftE SlRbspError (read_ue "redundant_pic_cnt ")) (fun v => retE (Some v))
                      else retE None) s8) (fun _ s9 => consumes s8 s9)).
  { destruct (redundant_pic_cnt_present_flag pp).
    - apply wp_bind. apply wp_read_ue. intros v s9 _ Hb9 Hl9. cbv beta. apply wp_ret. wp_done.
    - apply wp_ret. apply consumes_refl. }
  eapply wp_mono; [exact Hred|]. clear Hred. intros red s9 Hc9. cbv beta.
  apply wp_bind.
  assert (Hdsp : wp ((if family_eqb (family st) FamB
                      then bindE (liftE SlRbspError (read_bool "direct_spatial_mv_pred_flag")) (fun v => retE (Some v))
                      else retE None) s9) (fun _ s10 => consumes s9 s10)).
  { destruct (family_eqb (family st) FamB).
    - apply wp_bind. apply wp_read_bool. intros v s10 Hb10 Hl10. cbv beta. apply wp_ret. wp_done.
    - apply wp_ret. apply consumes_refl. }
  eapply wp_mono; [exact Hdsp|]. clear Hdsp. intros dsp s10 Hc10. cbv beta.
  (* num_ref_idx_active *)
  apply wp_bind.
  assert (Hnra : wp ((if family_eqb (family st) FamP || family_eqb (family st) FamSP || family_eqb (family st) FamB
                      then bindE (liftE SlRbspError (read_bool "num_ref_idx_active_override_flag")) (fun ov =>
                             if ov then bindE (sl_read_num_ref_idx "num_ref_idx_l0_active_minus1") (fun a =>
                                         if family_eqb (family st) FamB
                                         then bindE (sl_read_num_ref_idx "num_ref_idx_l1_active_minus1") (fun b => retE (Some (NraB a b)))
                                         else retE (Some (NraP a)))
                             else retE None)
                      else retE None) s10)
                    (fun nra s11 => match nra with Some (NraP a) => a <= 31 | Some (NraB a b) => a <= 31 /\ b <= 31 | None => True end
                                    /\ consumes s10 s11)).
  { destruct (family_eqb (family st) FamP || family_eqb (family st) FamSP || family_eqb (family st) FamB).
    - apply wp_bind. apply wp_read_bool. intros ov s11 Hb11 Hl11. cbv beta. destruct ov.
      + apply wp_bind. apply wp_sl_read_num_ref_idx. intros a s12 Ha Hc12. cbv beta.
        destruct (family_eqb (family st) FamB).
        * apply wp_bind. apply wp_sl_read_num_ref_idx. intros b s13 Hbv Hc13. cbv beta. apply wp_ret. split; [split; assumption|wp_done].
        * apply wp_ret. split; [exact Ha|wp_done].
      + apply wp_ret. split; [exact I|wp_done].
    - apply wp_ret. split; [exact I|apply consumes_refl]. }
  eapply wp_mono; [exact Hnra|]. clear Hnra. intros nra s11 [Hnrav Hc11]. cbv beta.
  destruct ((nal_unit_type_id hdr =? 20) || (nal_unit_type_id hdr =? 21)); [apply wp_fail|].
  apply wp_bind. apply wp_ref_pic_list_mods. intros rpl s12 Hc12. cbv beta.
  (* pred weight table *)
  apply wp_bind.
  assert (Hpwt : wp ((if weighted_pred_flag pp && (family_eqb (family st) FamP || family_eqb (family st) FamSP)
                         || (weighted_bipred_idc pp =? 1) && family_eqb (family st) FamB
                      then bindE (pred_weight_table_read st pp sp nra) (fun t => retE (Some t))
                      else retE None) s12) (fun _ s13 => consumes s12 s13)).
  { destruct (weighted_pred_flag pp && (family_eqb (family st) FamP || family_eqb (family st) FamSP)
              || (weighted_bipred_idc pp =? 1) && family_eqb (family st) FamB).
    - apply wp_bind. apply wp_pred_weight_table; [exact Hppl0|destruct nra as [[a|a b]|]; [exact Hnrav|apply Hnrav|exact I]|].
      intros t s13 Hc13. cbv beta. apply wp_ret. exact Hc13.
    - apply wp_ret. apply consumes_refl. }
  eapply wp_mono; [exact Hpwt|]. clear Hpwt. intros pwt s13 Hc13. cbv beta.
  (* dec_ref_pic_marking, cabac_init_idc *)
  apply wp_bind.
  assert (Hdrm : wp ((if nal_ref_idc hdr =? 0 then retE None
                      else bindE (dec_ref_pic_marking_read (nal_unit_type_id hdr)) (fun m => retE (Some m))) s13)
                    (fun _ s14 => consumes s13 s14)).
  { destruct (nal_ref_idc hdr =? 0).
    - apply wp_ret. apply consumes_refl.
    - apply wp_bind. apply wp_dec_ref_pic_marking. intros m s14 Hc14. cbv beta. apply wp_ret. exact Hc14. }
  eapply wp_mono; [exact Hdrm|]. clear Hdrm. intros drm s14 Hc14. cbv beta.
  apply wp_bind.
  assert (Hcab : wp ((if entropy_coding_mode_flag pp && negb (family_eqb (family st) FamI) && negb (family_eqb (family st) FamSI)
                      then bindE (liftE SlRbspError (read_ue "cabac_init_idc")) (fun v => retE (Some v))
                      else retE None) s14) (fun _ s15 => consumes s14 s15)).
  { destruct (entropy_coding_mode_flag pp && negb (family_eqb (family st) FamI) && negb (family_eqb (family st) FamSI)).
    - apply wp_bind. apply wp_read_ue. intros v s15 _ Hb15 Hl15. cbv beta. apply wp_ret. wp_done.
    - apply wp_ret. apply consumes_refl. }
  eapply wp_mono; [exact Hcab|]. clear Hcab. intros cab s15 Hc15. cbv beta.
  apply wp_bind. apply wp_read_se. intros qpd s16 _ Hex16 Hl16. cbv beta.
  destruct (51 <? qpd)%Z eqn:Eqp; [apply wp_fail|].
  (* slice_qs *)
  apply wp_bind.
  assert (Hqs : wp ((if family_eqb (family st) FamSP || family_eqb (family st) FamSI
                     then bindE (if family_eqb (family st) FamSP
                                 then bindE (liftE SlRbspError (read_bool "sp_for_switch_flag")) (fun v => retE (Some v))
                                 else retE None) (fun sw =>
                          bindE (liftE SlRbspError (read_se "slice_qs_delta")) (fun qsd =>
                          bindE (liftO (addi32 26 (pic_init_qs_minus26 pp))) (fun base =>
                            let q := (base + qsd)%Z in
                            if in_i32 q && (0 <=? q)%Z && (q <=? 51)%Z then retE (sw, Some (Z.to_N q))
                            else failE (InvalidSliceQsDelta qsd))))
                     else retE (None, None)) s16)
                   (fun spq s17 => match snd spq with Some q => q <= 51 | None => True end /\ consumes s16 s17)).
  { destruct (family_eqb (family st) FamSP || family_eqb (family st) FamSI).
    - apply wp_bind.
      assert (Hsw : wp ((if family_eqb (family st) FamSP
                         then bindE (liftE SlRbspError (read_bool "sp_for_switch_flag")) (fun v => retE (Some v))
                         else retE None) s16) (fun _ s17 => consumes s16 s17)).
      { destruct (family_eqb (family st) FamSP).
        - apply wp_bind. apply wp_read_bool. intros v s17 Hb17 Hl17. cbv beta. apply wp_ret. wp_done.
        - apply wp_ret. apply consumes_refl. }
      eapply wp_mono; [exact Hsw|]. clear Hsw. intros sw s17 Hc17. cbv beta.
      apply wp_bind. apply wp_read_se. intros qsd s18 _ Hex18 Hl18. cbv beta.
      apply wp_bind. rewrite addi32_ok by lia. apply (wp_liftO_ok _ (26 + pic_init_qs_minus26 pp)%Z); [reflexivity|].
      cbv zeta. destruct (in_i32 _ && (0 <=? _)%Z && (_ <=? 51)%Z) eqn:Eq; [|apply wp_fail].
      apply wp_ret. cbn [snd]. split; [lia|wp_done].
    - apply wp_ret. split; [exact I|apply consumes_refl]. }
  eapply wp_mono; [exact Hqs|]. clear Hqs. intros spq s17 [Hqsv Hc17]. cbv beta.
  (* deblocking *)
  apply wp_bind.
  assert (Hddf : wp ((if deblocking_filter_control_present_flag pp
                      then bindE (liftE SlRbspError (read_ue "disable_deblocking_filter_idc")) (fun v =>
                             if 6 <? v then failE (InvalidDisableDeblockingFilterIdc v)
                             else if negb (v =? 1)
                                  then bindE (liftE SlRbspError (read_se "slice_alpha_c0_offset_div2")) (fun a =>
                                         if ((a <? -6) || (6 <? a))%Z then failE (InvalidSliceAlphaC0OffsetDiv2 a)
                                         else bindE (liftE SlRbspError (read_se "slice_beta_offset_div2")) (fun _ => retE v))
                                  else retE v)
                      else retE 0) s17) (fun v s18 => v <= 6 /\ consumes s17 s18)).
  { destruct (deblocking_filter_control_present_flag pp).
    - apply wp_bind. apply wp_read_ue. intros v s18 _ Hb18 Hl18. cbv beta.
      destruct (6 <? v) eqn:E6; [apply wp_fail|]. destruct (negb (v =? 1)).
      + apply wp_bind. apply wp_read_se. intros a s19 _ Hex19 Hl19. cbv beta.
        destruct ((a <? -6)%Z || (6 <? a)%Z); [apply wp_fail|].
        apply wp_bind. apply wp_read_se. intros b s20 _ Hex20 Hl20. cbv beta. apply wp_ret. split; [lia|wp_done].
      + apply wp_ret. split; [lia|wp_done].
    - apply wp_ret. split; [lia|apply consumes_refl]. }
  eapply wp_mono; [exact Hddf|]. clear Hddf. intros ddf s18 [Hddfv Hc18]. cbv beta.
  apply wp_bind. apply wp_has_more. intros more. cbv beta. destruct more; cbn [negb]; [|apply wp_fail].
  apply wp_ret. apply Hk; [|wp_done].
  cbn [fst snd]. unfold inv_slice. exists pp, sp.
  cbn [frame_num pic_order_cnt_lsb sh_num_ref_idx_active slice_qs slice_qp_delta disable_deblocking_filter_idc colour_plane].
  split; [exact Ep|]. split; [exact Es|]. split; [reflexivity|]. split; [exact Hfn|]. split; [exact Hpocv|].
  split; [exact Hnrav|]. split; [exact Hqsv|]. split; [lia|]. split; [exact Hddfv|exact Hcpv].
Qed.
