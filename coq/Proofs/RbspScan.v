(* One scan of a window: what it passes over is output verbatim; it stops at the window's end, at a
   03 to drop, at a forbidden byte, or after consuming skipped bytes. *)
From H264 Require Import Base.Prelude Spec.Escape Model.RefNal Model.Rbsp Proofs.RbspSem.
Local Open Scope N_scope.

Definition data_state (s : pstate) : Prop := match s with Skip _ | Three => False | _ => True end.

Lemma uout_pass s b r s' : data_state s ->
  (* a byte passed over verbatim moves the state and is emitted *)
  match s with
  | Start => s' = (if b =? 0 then OneZero else Start)
  | OneZero => s' = (if b =? 0 then TwoZero else Start)
  | TwoZero => b <> 3 /\ b <> 0 /\ s' = Start
  | PostThree => (b = 0 /\ s' = OneZero) \/ (b <> 0 /\ b <= 3 /\ s' = Start)
  | _ => False
  end ->
  uout s (b :: r) = let '(o, ok) := uout s' r in (b :: o, ok).
Proof.
  intros _ H. destruct s; cbn [uout]; try contradiction.
  - subst s'. reflexivity.
  - subst s'. reflexivity.
  - destruct H as (H3 & H0 & ->). destruct (N.eqb_spec b 3); [contradiction|]. destruct (N.eqb_spec b 0); [contradiction|]. reflexivity.
  - destruct H as [[-> ->]|(H0 & H3 & ->)]; [reflexivity|].
    destruct (N.eqb_spec b 0); [contradiction|]. destruct (N.leb_spec b 3); [reflexivity|lia].
Qed.

(* the result of scanning l (the window from index i), for any continuation X of the input *)
Lemma scan_sem clen l : forall s i X, data_state s ->
  match scan clen s i l with
  | ScanDone s' i' =>
      exists passed rest', l = passed ++ rest' /\ i' = (i + length passed)%nat /\
        uout s (l ++ X) = (let '(o, ok) := uout s' (rest' ++ X) in (passed ++ o, ok)) /\
        ((rest' = [] /\ data_state s') \/ (s' = Three /\ exists r'', rest' = 3 :: r''))
  | ScanConsume _ _ => False
  | ScanErr s' i' =>
      exists passed rest', l = passed ++ rest' /\ rest' <> [] /\ i' = (i + length passed)%nat /\
        uout s (l ++ X) = (passed, false) /\ uout s' (rest' ++ X) = ([], false) /\ data_state s'
  end.
Proof.
  induction l as [|b l IH]; intros s i X Hs.
  - cbn [scan]. exists [], []. split; [reflexivity|]. split; [cbn; lia|]. cbn [app]. split; [destruct (uout s X); reflexivity|].
    left. split; [reflexivity|exact Hs].
  - cbn [scan app]. destruct s; try contradiction.
    + (* Start *)
      specialize (IH (if b =? 0 then OneZero else Start) (S i) X (ltac:(destruct (b =? 0); exact I))).
      destruct (scan clen (if b =? 0 then OneZero else Start) (S i) l) as [s' i'|s' k|s' i'].
      * destruct IH as (passed & rest' & -> & -> & Hu & Hend). exists (b :: passed), rest'.
        split; [reflexivity|]. split; [cbn; lia|]. split; [|exact Hend].
        rewrite (uout_pass Start b _ (if b =? 0 then OneZero else Start) I eq_refl). rewrite Hu.
        destruct (uout s' (rest' ++ X)); reflexivity.
      * contradiction.
      * destruct IH as (passed & rest' & -> & Hne & -> & Hu & Hu' & Hd). exists (b :: passed), rest'.
        split; [reflexivity|]. split; [exact Hne|]. split; [cbn; lia|]. split; [|split; assumption].
        rewrite (uout_pass Start b _ (if b =? 0 then OneZero else Start) I eq_refl). rewrite Hu. reflexivity.
    + (* OneZero *)
      specialize (IH (if b =? 0 then TwoZero else Start) (S i) X (ltac:(destruct (b =? 0); exact I))).
      destruct (scan clen (if b =? 0 then TwoZero else Start) (S i) l) as [s' i'|s' k|s' i'].
      * destruct IH as (passed & rest' & -> & -> & Hu & Hend). exists (b :: passed), rest'.
        split; [reflexivity|]. split; [cbn; lia|]. split; [|exact Hend].
        rewrite (uout_pass OneZero b _ (if b =? 0 then TwoZero else Start) I eq_refl). rewrite Hu.
        destruct (uout s' (rest' ++ X)); reflexivity.
      * contradiction.
      * destruct IH as (passed & rest' & -> & Hne & -> & Hu & Hu' & Hd). exists (b :: passed), rest'.
        split; [reflexivity|]. split; [exact Hne|]. split; [cbn; lia|]. split; [|split; assumption].
        rewrite (uout_pass OneZero b _ (if b =? 0 then TwoZero else Start) I eq_refl). rewrite Hu. reflexivity.
    + (* TwoZero *)
      destruct (N.eqb_spec b 3) as [->|Hb3].
      * exists [], (3 :: l). split; [reflexivity|]. split; [cbn; lia|]. cbn [app]. split.
        { cbn [uout]. change (3 =? 3) with true. cbv iota. destruct (uout PostThree (l ++ X)); reflexivity. }
        right. split; [reflexivity|]. exists l. reflexivity.
      * destruct (N.eqb_spec b 0) as [->|Hb0].
        -- exists [], (0 :: l). split; [reflexivity|]. split; [discriminate|]. split; [cbn; lia|].
           split; [reflexivity|]. split; [reflexivity|exact I].
        -- specialize (IH Start (S i) X I).
           destruct (scan clen Start (S i) l) as [s' i'|s' k|s' i'].
           ++ destruct IH as (passed & rest' & -> & -> & Hu & Hend). exists (b :: passed), rest'.
              split; [reflexivity|]. split; [cbn; lia|]. split; [|exact Hend].
              rewrite (uout_pass TwoZero b _ Start I (conj Hb3 (conj Hb0 eq_refl))). rewrite Hu.
              destruct (uout s' (rest' ++ X)); reflexivity.
           ++ contradiction.
           ++ destruct IH as (passed & rest' & -> & Hne & -> & Hu & Hu' & Hd). exists (b :: passed), rest'.
              split; [reflexivity|]. split; [exact Hne|]. split; [cbn; lia|]. split; [|split; assumption].
              rewrite (uout_pass TwoZero b _ Start I (conj Hb3 (conj Hb0 eq_refl))). rewrite Hu. reflexivity.
    + (* PostThree *)
      destruct (N.eqb_spec b 0) as [->|Hb0].
      * specialize (IH OneZero (S i) X I).
        destruct (scan clen OneZero (S i) l) as [s' i'|s' k|s' i'].
        -- destruct IH as (passed & rest' & -> & -> & Hu & Hend). exists (0 :: passed), rest'.
           split; [reflexivity|]. split; [cbn; lia|]. split; [|exact Hend].
           rewrite (uout_pass PostThree 0 _ OneZero I (or_introl (conj eq_refl eq_refl))). rewrite Hu.
           destruct (uout s' (rest' ++ X)); reflexivity.
        -- contradiction.
        -- destruct IH as (passed & rest' & -> & Hne & -> & Hu & Hu' & Hd). exists (0 :: passed), rest'.
           split; [reflexivity|]. split; [exact Hne|]. split; [cbn; lia|]. split; [|split; assumption].
           rewrite (uout_pass PostThree 0 _ OneZero I (or_introl (conj eq_refl eq_refl))). rewrite Hu. reflexivity.
      * destruct (N.leb_spec b 3) as [Hb3|Hb3].
        -- specialize (IH Start (S i) X I).
           destruct (scan clen Start (S i) l) as [s' i'|s' k|s' i'].
           ++ destruct IH as (passed & rest' & -> & -> & Hu & Hend). exists (b :: passed), rest'.
              split; [reflexivity|]. split; [cbn; lia|]. split; [|exact Hend].
              rewrite (uout_pass PostThree b _ Start I (or_intror (conj Hb0 (conj Hb3 eq_refl)))). rewrite Hu.
              destruct (uout s' (rest' ++ X)); reflexivity.
           ++ contradiction.
           ++ destruct IH as (passed & rest' & -> & Hne & -> & Hu & Hu' & Hd). exists (b :: passed), rest'.
              split; [reflexivity|]. split; [exact Hne|]. split; [cbn; lia|]. split; [|split; assumption].
              rewrite (uout_pass PostThree b _ Start I (or_intror (conj Hb0 (conj Hb3 eq_refl)))). rewrite Hu. reflexivity.
        -- exists [], (b :: l). split; [reflexivity|]. split; [discriminate|]. split; [cbn; lia|].
           split.
           { cbn [uout app]. destruct (N.eqb_spec b 0); [contradiction|]. destruct (N.leb_spec b 3); [lia|]. reflexivity. }
           split; [|exact I]. cbn [uout app]. destruct (N.eqb_spec b 0); [contradiction|]. destruct (N.leb_spec b 3); [lia|]. reflexivity.
Qed.
