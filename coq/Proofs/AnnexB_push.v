(* One push of the model = the abstract machine run over the buffer (meaning of the calls). *)
From H264 Require Import Base.Prelude Model.AnnexB Proofs.AnnexB_sem.

Definition bt_of (st : astate) : nat := match in_unit st with Some bt => bt | None => 0%nat end.

Lemma zeros_snoc k : zeros k ++ [0] = zeros (S k).
Proof. induction k as [|k IH]; cbn [zeros app]; [reflexivity|]. rewrite IH. reflexivity. Qed.
Lemma zeros_length k : length (zeros k) = k.
Proof. induction k as [|k IH]; cbn [zeros length]; [reflexivity|rewrite IH; reflexivity]. Qed.
Lemma zeros_app a b : zeros a ++ zeros b = zeros (a + b).
Proof. induction a as [|a IH]; cbn [zeros app plus]; [reflexivity|rewrite IH; reflexivity]. Qed.

Lemma drop_last_app {A} k (p q : list A) : length q = k -> drop_last k (p ++ q) = p.
Proof.
  intros H. unfold drop_last. rewrite rev_app_distr. rewrite skipn_app.
  rewrite rev_length, H, Nat.sub_diag. cbn [skipn].
  rewrite skipn_all2 by (rewrite rev_length; lia). cbn [app]. apply rev_involutive.
Qed.
Lemma drop_last_0 {A} (l : list A) : drop_last 0 l = l.
Proof. unfold drop_last. cbn [skipn]. apply rev_involutive. Qed.
Lemma drop_last_all {A} k (l : list A) : (length l <= k)%nat -> drop_last k l = [].
Proof. intros H. unfold drop_last. rewrite skipn_all2 by (rewrite rev_length; lia). reflexivity. Qed.
Lemma drop_last_length {A} k (l : list A) : length (drop_last k l) = (length l - k)%nat.
Proof. unfold drop_last. rewrite rev_length, skipn_length, rev_length. reflexivity. Qed.
Lemma drop_last_app_l {A} k (p q : list A) : (k <= length q)%nat -> drop_last k (p ++ q) = p ++ drop_last k q.
Proof.
  intros H. unfold drop_last. rewrite rev_app_distr, skipn_app.
  replace (k - length (rev q))%nat with 0%nat by (rewrite rev_length; lia). cbn [skipn].
  rewrite rev_app_distr, rev_involutive. reflexivity.
Qed.

(* the invariant carried by (state, fake_and_start) at every loop position *)
Definition pending (fs : option (nat * list byte)) : list byte :=
  match fs with Some (fake, real) => zeros fake ++ real | None => [] end.

Definition inv (st : astate) (fs : option (nat * list byte)) : Prop :=
  match in_unit st, fs with
  | None, None => True
  | Some bt, Some (fake, real) =>
      (exists p0, zeros fake ++ real = p0 ++ zeros bt) /\
      (fake = 0 \/ bt < length real \/ bt = fake + length real)%nat
  | _, _ => False
  end.

(* what would be visible if the push ended here: pending minus the held-back zeros *)
Definition vis (st : astate) (fs : option (nat * list byte)) : list byte :=
  drop_last (bt_of st) (pending fs).

Definition meaning (a : accu) (out : list call) (st : astate) (fs : option (nat * list byte)) : accu :=
  let a' := feed_calls out a in (fst a', snd a' ++ vis st fs).

(* maybe_emit ends the unit with exactly the visible bytes *)
Lemma maybe_emit_end st fs a : inv st fs -> in_unit st = Some (bt_of st) ->
  feed_calls (maybe_emit fs (bt_of st) true) a = (fst a ++ [snd a ++ vis st fs], []).
Proof.
  unfold inv, vis, pending. intros Hinv Hu. rewrite Hu in Hinv. destruct fs as [[fake real]|]; [|contradiction].
  destruct Hinv as [[p0 Hp] Hd]. unfold maybe_emit.
  destruct (Nat.ltb_spec (bt_of st) (length real)) as [Hlt|Hge].
  - rewrite drop_last_app_l by lia.
    destruct (Nat.ltb_spec 0 fake); cbn [feed_calls fold_left feed_call bufs fin concat].
    + rewrite app_nil_r. reflexivity.
    + assert (fake = 0%nat) by lia. subst. cbn [zeros app]. rewrite app_nil_r. reflexivity.
  - cbn [feed_calls fold_left feed_call bufs fin concat]. rewrite app_nil_r.
    rewrite drop_last_all; [rewrite app_nil_r; reflexivity|].
    rewrite app_length, zeros_length. destruct Hd as [H|[H|H]]; lia.
Qed.

(* ... and at the end of a push it hands over exactly the visible bytes *)
Lemma maybe_emit_flush st fs a : inv st fs -> in_unit st = Some (bt_of st) ->
  feed_calls (maybe_emit fs (bt_of st) false) a = (fst a, snd a ++ vis st fs).
Proof.
  unfold inv, vis, pending. intros Hinv Hu. rewrite Hu in Hinv. destruct fs as [[fake real]|]; [|contradiction].
  destruct Hinv as [[p0 Hp] Hd]. unfold maybe_emit.
  destruct (Nat.ltb_spec (bt_of st) (length real)) as [Hlt|Hge].
  - rewrite drop_last_app_l by lia.
    destruct (Nat.ltb_spec 0 fake); cbn [feed_calls fold_left feed_call bufs fin concat].
    + rewrite app_nil_r. destruct a; reflexivity.
    + assert (fake = 0%nat) by lia. subst. cbn [zeros app]. rewrite app_nil_r. destruct a; reflexivity.
  - cbn [feed_calls fold_left].
    rewrite drop_last_all; [rewrite app_nil_r; destruct a; reflexivity|].
    rewrite app_length, zeros_length. destruct Hd as [H|[H|H]]; lia.
Qed.

Lemma in_unit_bt st bt : in_unit st = Some bt -> bt_of st = bt.
Proof. unfold bt_of. intros ->. reflexivity. Qed.

(* growth of the pending bytes by one examined byte *)
Lemma inv_grow_nonzero st fs b : inv st fs -> in_unit st <> None -> inv AInUnit (grow fs b).
Proof.
  unfold inv. destruct (in_unit st) as [bt|]; [|congruence]. intros H _.
  destruct fs as [[fake real]|]; [|contradiction]. cbn [grow in_unit].
  split; [exists (zeros fake ++ real ++ [b]); cbn [zeros]; rewrite app_nil_r; reflexivity|].
  right. left. rewrite app_length. cbn. lia.
Qed.

Lemma inv_grow_zero st st' fs bt : inv st fs -> in_unit st = Some bt -> in_unit st' = Some (S bt) ->
  inv st' (grow fs 0).
Proof.
  unfold inv. intros H Hu Hu'. rewrite Hu in H. rewrite Hu'.
  destruct fs as [[fake real]|]; [|contradiction]. cbn [grow]. destruct H as [[p0 Hp] Hd].
  split.
  - exists p0. rewrite app_assoc, Hp, <- app_assoc, zeros_snoc. reflexivity.
  - rewrite app_length. cbn [length]. destruct Hd as [H|[H|H]]; [left; exact H|right; left; lia|].
    right. right. lia.
Qed.

Lemma vis_grow_nonzero st fs b bt : inv st fs -> in_unit st = Some bt ->
  vis AInUnit (grow fs b) = vis st fs ++ zeros bt ++ [b].
Proof.
  unfold inv, vis, pending. intros H Hu. rewrite Hu in H. rewrite (in_unit_bt _ _ Hu).
  destruct fs as [[fake real]|]; [|contradiction]. destruct H as [[p0 Hp] _].
  cbn [grow bt_of in_unit]. rewrite drop_last_0. rewrite app_assoc, Hp.
  rewrite drop_last_app by apply zeros_length. rewrite <- app_assoc. reflexivity.
Qed.

Lemma vis_grow_zero st st' fs bt : inv st fs -> in_unit st = Some bt -> in_unit st' = Some (S bt) ->
  vis st' (grow fs 0) = vis st fs.
Proof.
  unfold inv, vis, pending. intros H Hu Hu'. rewrite Hu in H. rewrite (in_unit_bt _ _ Hu), (in_unit_bt _ _ Hu').
  destruct fs as [[fake real]|]; [|contradiction]. destruct H as [[p0 Hp] _].
  cbn [grow]. rewrite app_assoc, Hp. rewrite <- app_assoc, zeros_snoc.
  rewrite !drop_last_app by apply zeros_length. reflexivity.
Qed.

Lemma vis_fresh : vis AInUnit (Some (0%nat, [])) = [].
Proof. reflexivity. Qed.
Lemma inv_fresh : inv AInUnit (Some (0%nat, [])).
Proof. cbn. split; [exists []; reflexivity|left; reflexivity]. Qed.

Lemma meaning_step a out st fs st' fs' :
  feed_calls out a = feed_calls out a -> (* dummy to keep argument order readable *)
  vis st' fs' = vis st fs -> meaning a out st' fs' = meaning a out st fs.
Proof. intros _ H. unfold meaning. rewrite H. reflexivity. Qed.

(* the loop: scanning l from (st, fs, out) means running the abstract machine on l *)
Lemma scan_sem l : forall st fs out a, inv st fs ->
  let '(st', fs', out') := scan l st fs out in
  let '(st2, es) := arun st l in
  st' = st2 /\ inv st' fs' /\ meaning a out' st' fs' = feed_evs es (meaning a out st fs).
Proof.
  induction l as [|b l IH]; intros st fs out a Hinv.
  - cbn [scan arun feed_evs fold_left]. auto.
  - cbn [scan arun]. destruct st; cbn [astep].
    + (* AStart *)
      specialize (IH (if b =? 0 then AStartOneZero else AStart) fs out a).
      destruct (scan l _ fs out) as [[st' fs'] out'].
      destruct (arun (if b =? 0 then AStartOneZero else AStart) l) as [st2 es]. cbn [app].
      assert (Hi : inv (if b =? 0 then AStartOneZero else AStart) fs) by (destruct (b =? 0); exact Hinv).
      destruct (IH Hi) as (H1 & H2 & H3). split; [exact H1|]. split; [exact H2|].
      rewrite H3. f_equal. unfold meaning, vis. destruct (b =? 0); reflexivity.
    + (* AStartOneZero *)
      specialize (IH (if b =? 0 then AStartTwoZero else AStart) fs out a).
      destruct (scan l _ fs out) as [[st' fs'] out'].
      destruct (arun (if b =? 0 then AStartTwoZero else AStart) l) as [st2 es]. cbn [app].
      assert (Hi : inv (if b =? 0 then AStartTwoZero else AStart) fs) by (destruct (b =? 0); exact Hinv).
      destruct (IH Hi) as (H1 & H2 & H3). split; [exact H1|]. split; [exact H2|].
      rewrite H3. f_equal. unfold meaning, vis. destruct (b =? 0); reflexivity.
    + (* AStartTwoZero *)
      destruct (b =? 0).
      * specialize (IH AStartTwoZero fs out a Hinv).
        destruct (scan l AStartTwoZero fs out) as [[st' fs'] out'].
        destruct (arun AStartTwoZero l) as [st2 es]. exact IH.
      * destruct (b =? 1).
        -- specialize (IH AInUnit (Some (0%nat, [])) out a inv_fresh).
           destruct (scan l AInUnit _ out) as [[st' fs'] out'].
           destruct (arun AInUnit l) as [st2 es]. cbn [app].
           destruct IH as (H1 & H2 & H3). split; [exact H1|]. split; [exact H2|].
           rewrite H3. f_equal. unfold meaning. rewrite vis_fresh.
           unfold inv in Hinv. cbn [in_unit] in Hinv. destruct fs; [contradiction|]. reflexivity.
        -- specialize (IH AStart fs out a).
           destruct (scan l AStart fs out) as [[st' fs'] out'].
           destruct (arun AStart l) as [st2 es]. cbn [app]. apply IH. exact Hinv.
    + (* AInUnit *)
      destruct (N.eqb_spec b 0) as [->|Hb].
      * assert (Hi : inv AInUnitOneZero (grow fs 0)) by (eapply inv_grow_zero; [exact Hinv|reflexivity|reflexivity]).
        specialize (IH AInUnitOneZero (grow fs 0) out a Hi).
        destruct (scan l AInUnitOneZero (grow fs 0) out) as [[st' fs'] out'].
        destruct (arun AInUnitOneZero l) as [st2 es]. cbn [app].
        destruct IH as (H1 & H2 & H3). split; [exact H1|]. split; [exact H2|].
        rewrite H3. f_equal. unfold meaning.
        rewrite (vis_grow_zero AInUnit AInUnitOneZero fs 0 Hinv eq_refl eq_refl). reflexivity.
      * assert (Hi : inv AInUnit (grow fs b)) by (eapply inv_grow_nonzero; [exact Hinv|discriminate]).
        specialize (IH AInUnit (grow fs b) out a Hi).
        destruct (scan l AInUnit (grow fs b) out) as [[st' fs'] out'].
        destruct (arun AInUnit l) as [st2 es].
        destruct IH as (H1 & H2 & H3). split; [exact H1|]. split; [exact H2|].
        rewrite H3. cbn [app feed_evs fold_left feed_ev]. f_equal. unfold meaning.
        rewrite (vis_grow_nonzero AInUnit fs b 0 Hinv eq_refl). cbn [zeros app fst snd]. rewrite app_assoc. reflexivity.
    + (* AInUnitOneZero *)
      destruct (N.eqb_spec b 0) as [->|Hb].
      * assert (Hi : inv AInUnitTwoZero (grow fs 0)) by (eapply inv_grow_zero; [exact Hinv|reflexivity|reflexivity]).
        specialize (IH AInUnitTwoZero (grow fs 0) out a Hi).
        destruct (scan l AInUnitTwoZero (grow fs 0) out) as [[st' fs'] out'].
        destruct (arun AInUnitTwoZero l) as [st2 es]. cbn [app].
        destruct IH as (H1 & H2 & H3). split; [exact H1|]. split; [exact H2|].
        rewrite H3. f_equal. unfold meaning.
        rewrite (vis_grow_zero AInUnitOneZero AInUnitTwoZero fs 1 Hinv eq_refl eq_refl). reflexivity.
      * assert (Hi : inv AInUnit (grow fs b)) by (eapply inv_grow_nonzero; [exact Hinv|discriminate]).
        specialize (IH AInUnit (grow fs b) out a Hi).
        destruct (scan l AInUnit (grow fs b) out) as [[st' fs'] out'].
        destruct (arun AInUnit l) as [st2 es].
        destruct IH as (H1 & H2 & H3). split; [exact H1|]. split; [exact H2|].
        rewrite H3. cbn [app feed_evs fold_left feed_ev]. f_equal. unfold meaning.
        rewrite (vis_grow_nonzero AInUnitOneZero fs b 1 Hinv eq_refl). cbn [zeros app fst snd]. rewrite app_assoc. reflexivity.
    + (* AInUnitTwoZero *)
      destruct (N.eqb_spec b 0) as [->|Hb0].
      * assert (Hi : inv AStartTwoZero None) by exact I.
        specialize (IH AStartTwoZero None (out ++ maybe_emit fs 2 true) a Hi).
        destruct (scan l AStartTwoZero None _) as [[st' fs'] out'].
        destruct (arun AStartTwoZero l) as [st2 es].
        destruct IH as (H1 & H2 & H3). split; [exact H1|]. split; [exact H2|].
        rewrite H3. cbn [app feed_evs fold_left feed_ev]. f_equal. unfold meaning.
        rewrite feed_calls_app. change 2%nat with (bt_of AInUnitTwoZero).
        rewrite maybe_emit_end by (exact Hinv || reflexivity).
        cbn [fst snd]. reflexivity.
      * destruct (N.eqb_spec b 1) as [->|Hb1].
        -- specialize (IH AInUnit (Some (0%nat, [])) (out ++ maybe_emit fs 2 true) a inv_fresh).
           destruct (scan l AInUnit _ _) as [[st' fs'] out'].
           destruct (arun AInUnit l) as [st2 es].
           destruct IH as (H1 & H2 & H3). split; [exact H1|]. split; [exact H2|].
           rewrite H3. cbn [app feed_evs fold_left feed_ev]. f_equal. unfold meaning.
           rewrite feed_calls_app. change 2%nat with (bt_of AInUnitTwoZero).
           rewrite maybe_emit_end by (exact Hinv || reflexivity).
           cbn [fst snd]. rewrite vis_fresh, app_nil_r. reflexivity.
        -- assert (Hi : inv AInUnit (grow fs b)) by (eapply inv_grow_nonzero; [exact Hinv|discriminate]).
           specialize (IH AInUnit (grow fs b) out a Hi).
           destruct (scan l AInUnit (grow fs b) out) as [[st' fs'] out'].
           destruct (arun AInUnit l) as [st2 es].
           destruct IH as (H1 & H2 & H3). split; [exact H1|]. split; [exact H2|].
           rewrite H3. cbn [app feed_evs fold_left feed_ev]. f_equal. unfold meaning.
           rewrite (vis_grow_nonzero AInUnitTwoZero fs b 2 Hinv eq_refl). cbn [zeros app fst snd]. rewrite app_assoc. reflexivity.
Qed.

Lemma inv_push_start st :
  inv st (match in_unit st with Some bt => Some (bt, []) | None => None end) /\
  vis st (match in_unit st with Some bt => Some (bt, []) | None => None end) = [].
Proof.
  destruct st; cbn; (split; [try exact I|reflexivity]).
  - split; [exists []; reflexivity|left; reflexivity].
  - split; [exists []; reflexivity|right; right; reflexivity].
  - split; [exists []; reflexivity|right; right; reflexivity].
Qed.

(* one push = the abstract run over its buffer *)
Theorem push_sem st buf a :
  fst (push st buf) = fst (arun st buf) /\
  feed_calls (snd (push st buf)) a = feed_evs (snd (arun st buf)) a.
Proof.
  unfold push. destruct (inv_push_start st) as [Hi Hv].
  pose proof (scan_sem buf st _ [] a Hi) as H.
  destruct (scan buf st _ []) as [[st' fs'] out'].
  destruct (arun st buf) as [st2 es]. destruct H as (H1 & H2 & H3). subst st2. cbn [fst snd].
  unfold meaning in H3. rewrite Hv in H3. cbn [feed_calls fold_left fst snd] in H3. rewrite app_nil_r in H3.
  replace (fst a, snd a) with a in H3 by (destruct a; reflexivity).
  destruct (in_unit st') as [bt|] eqn:Hu.
  - split; [reflexivity|]. cbn [snd]. rewrite feed_calls_app. rewrite <- (in_unit_bt _ _ Hu).
    rewrite maybe_emit_flush; [exact H3|exact H2|rewrite (in_unit_bt _ _ Hu); exact Hu].
  - split; [reflexivity|]. cbn [snd]. rewrite <- H3.
    unfold vis, bt_of. rewrite Hu, drop_last_0. unfold inv in H2. rewrite Hu in H2. destruct fs'; [contradiction|].
    cbn [pending]. rewrite app_nil_r. destruct (feed_calls out' a); reflexivity.
Qed.

Theorem reset_sem st a :
  fst (reset st) = AStart /\ feed_calls (snd (reset st)) a = feed_evs (areset st) a.
Proof.
  unfold reset, areset. destruct (in_unit st) as [bt|]; [|split; reflexivity].
  split; [reflexivity|]. destruct (Nat.ltb_spec 0 bt).
  - cbn. rewrite app_nil_r. reflexivity.
  - assert (bt = 0%nat) by lia. subst. cbn. reflexivity.
Qed.

(* C18: the calls themselves are well shaped, whatever the state *)
Definition call_ok (c : call) : Prop :=
  Forall (fun b => b <> []) (bufs c) /\ (bufs c = [] -> fin c = true).

Lemma maybe_emit_ok fs bt e : Forall call_ok (maybe_emit fs bt e).
Proof.
  unfold maybe_emit. destruct fs as [[fake real]|]; [|constructor].
  destruct (Nat.ltb_spec bt (length real)) as [Hlt|].
  - assert (Hne : drop_last bt real <> []).
    { intros E. apply (f_equal (@length byte)) in E. rewrite drop_last_length in E. cbn in E. lia. }
    destruct (Nat.ltb_spec 0 fake) as [Hf|Hf].
    + apply Forall_cons; [|apply Forall_nil]. unfold call_ok; cbn [bufs fin]. split; [|discriminate].
      apply Forall_cons; [destruct fake; [lia|discriminate]|].
      apply Forall_cons; [exact Hne|apply Forall_nil].
    + apply Forall_cons; [|apply Forall_nil]. unfold call_ok; cbn [bufs fin]. split; [|discriminate].
      apply Forall_cons; [exact Hne|apply Forall_nil].
  - destruct e; [|apply Forall_nil]. apply Forall_cons; [|apply Forall_nil].
    unfold call_ok; cbn [bufs fin]. split; [apply Forall_nil|reflexivity].
Qed.

Lemma scan_ok l : forall st fs out, Forall call_ok out ->
  Forall call_ok (snd (scan l st fs out)).
Proof.
  induction l as [|b l IH]; intros st fs out Hout; cbn [scan]; [exact Hout|].
  destruct st; try (apply IH; exact Hout).
  - destruct (b =? 0); [apply IH; exact Hout|]. destruct (b =? 1); apply IH; exact Hout.
  - destruct (b =? 0); [apply IH; apply Forall_app; split; [exact Hout|apply maybe_emit_ok]|].
    destruct (b =? 1); [apply IH; apply Forall_app; split; [exact Hout|apply maybe_emit_ok]|].
    apply IH; exact Hout.
Qed.

Theorem push_calls_ok st buf : Forall call_ok (snd (push st buf)).
Proof.
  unfold push. pose proof (scan_ok buf st (match in_unit st with Some bt => Some (bt, []) | None => None end) [] (Forall_nil _)) as H.
  destruct (scan buf st _ []) as [[st' fs'] out']. cbn [snd] in H.
  destruct (in_unit st'); cbn [snd]; [|exact H].
  apply Forall_app. split; [exact H|apply maybe_emit_ok].
Qed.

Theorem reset_calls_ok st : Forall call_ok (snd (reset st)).
Proof.
  unfold reset. destruct (in_unit st) as [bt|]; cbn [snd]; [|apply Forall_nil].
  apply Forall_cons; [|apply Forall_nil]. destruct (Nat.ltb_spec 0 bt); unfold call_ok; cbn [bufs fin].
  - split; [|discriminate]. apply Forall_cons; [|apply Forall_nil]. destruct bt; [lia|discriminate].
  - split; [apply Forall_nil|reflexivity].
Qed.
