(* C19 - The parameter-set context behaves as a last-writer-wins map keyed by id. *)
From H264 Require Import Base.Prelude Model.Context Model.Sps Model.Pps Proofs.C19_proofs.

(* after any sequence of insertions, lookup by id returns the most recently inserted value with
   that id, and nothing for ids never inserted *)
Theorem C19_last_writer_wins : forall (T : Type) (ops : list (nat * T)) (i : nat),
  map_get (puts [] ops) i = last_write i ops.
Proof. intros T ops i. apply last_writer_wins. Qed.
Print Assumptions C19_last_writer_wins.

(* iteration yields exactly the stored values, each once, in increasing id order *)
Theorem C19_iteration_order : forall (T : Type) (m : @psmap T), map_iter m = collect m 0 (length m).
Proof. intros T m. apply iter_in_key_order. Qed.
Print Assumptions C19_iteration_order.

(* SPS and PPS stores do not affect each other *)
Theorem C19_independent : forall c s p,
  ctx_pps (put_seq_param_set c s) = ctx_pps c /\ ctx_sps (put_pic_param_set c p) = ctx_sps c.
Proof. intros; split; reflexivity. Qed.
Print Assumptions C19_independent.

(* lookups (the ones the PPS / slice / buffering-period parsers make) see the latest definition of an
   id and are unaffected by insertions under other ids *)
Theorem C19_parsers_see_latest : forall c s p,
  sps_by_id (put_seq_param_set c s) (seq_parameter_set_id s) = Some s /\
  pps_by_id (put_pic_param_set c p) (pic_parameter_set_id p) = Some p /\
  (forall id, id <> seq_parameter_set_id s -> sps_by_id (put_seq_param_set c s) id = sps_by_id c id) /\
  (forall id, id <> pic_parameter_set_id p -> pps_by_id (put_pic_param_set c p) id = pps_by_id c id).
Proof.
  intros c s p. split; [apply sps_lookup_after_put|]. split; [apply pps_lookup_after_put|].
  split; intros id H; [apply sps_lookup_other|apply pps_lookup_other]; exact H.
Qed.
Print Assumptions C19_parsers_see_latest.

Example C19_ex : map_iter (puts [] [(2%nat, 20); (0%nat, 1); (2%nat, 21); (5%nat, 50)]) = [1; 21; 50]
              /\ map_get (puts [] [(2%nat, 20); (0%nat, 1); (2%nat, 21)]) 2 = Some 21
              /\ map_get (puts [] [(2%nat, 20)]) 1 = @None N.
Proof. repeat split. Qed.
