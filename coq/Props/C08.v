(* C08 - NAL accumulator shows each NAL from byte 0, completes it once, honours Ignore. *)
From H264 Require Import Base.Prelude Model.Accum Spec.AccumSpec Proofs.C08_proofs.

(* For every history of deliveries (slices non-empty: the trait's precondition) and every handler
   policy, what the handler is shown - (bytes readable from the NAL, complete flag) per invocation -
   is what the whole-history specification says: all bytes of the current NAL so far, complete iff
   that delivery ended it, no invocation after Ignore or while the NAL is empty. *)
Theorem C08_refines : forall frs pol, slices_ok frs ->
  map view (run_fragments acc_init pol frs) = spec_history pol frs.
Proof. exact refines_init. Qed.
Print Assumptions C08_refines.

(* the end of a NAL restores the initial state whatever happened before: nothing carries over *)
Theorem C08_no_carry_over : forall a pol bufs, fst (fst (nal_fragment a pol bufs true)) = acc_init.
Proof. exact end_resets. Qed.
Print Assumptions C08_no_carry_over.

(* a NAL with at least one byte whose handler always answers Buffer gets exactly one complete
   invocation, the last one, carrying the whole NAL *)
Theorem C08_exactly_one_complete : forall frs sofar,
  ends_here frs = true -> sofar ++ nal_bytes frs <> [] ->
  exists pre, spec_run sofar false [] frs =
              pre ++ (sofar ++ nal_bytes frs, true) :: spec_run [] false [] (after_end frs)
              /\ Forall (fun v => snd v = false) pre.
Proof. exact buffer_only_one_complete. Qed.
Print Assumptions C08_exactly_one_complete.

(* after Ignore: silence until the NAL has ended, then a fresh start *)
Theorem C08_ignore_silences : forall frs sofar pol,
  spec_run sofar true pol frs = spec_run [] false pol (after_end frs).
Proof. intros frs sofar pol. destruct (ignored_is_silent frs sofar pol) as (n & H & _). exact H. Qed.
Print Assumptions C08_ignore_silences.

Example C08_ex :
  map view (run_fragments acc_init [Buffer; Ignore; Buffer]
     [([[81]], false); ([[1]; [2; 3]], false); ([[4]], false); ([], true); ([[9]], true)])
  = [([81], false); ([81; 1; 2; 3], false); ([9], true)].
Proof. vm_compute. reflexivity. Qed.
