(* C20 - Header-byte and idc enumerations are total and round-trip over their domain.
   Statements only; every theorem is about the tables dumped from the real crate on this run. *)
From H264 Require Import Base.Prelude Proofs.TablesLib Gen.ImplTables Gen.ImplLevel Proofs.C20_proofs.
Local Open Scope N_scope.

(* header byte b: refused iff the top bit is set; otherwise nal_ref_idc = bits 5-6, unit type id =
   bits 0-4, and the wrapper gives the byte back *)
Theorem C20_header : forall b, b < 256 ->
  match lookup b impl_hdr with
  | Some None => 128 <= b
  | Some (Some (r, t, back)) => b < 128 /\ r = (b / 32) mod 4 /\ t = b mod 32 /\ back = b
  | None => False
  end.
Proof. exact header_total. Qed.
Print Assumptions C20_header.

(* UnitType::for_id / id: 0..31 round-trip, above 31 refused (never a panic) *)
Theorem C20_unit_type : forall id, id < 256 ->
  (id < 32 -> exists nm, lookup id impl_ut = Some (Some (Some (id, nm)))) /\
  (32 <= id -> lookup id impl_ut = Some (Some None)).
Proof. exact unit_type_roundtrip. Qed.
Print Assumptions C20_unit_type.

(* ids 0..31 map to distinct types *)
Theorem C20_unit_type_distinct : forall i j nm, i < 32 -> j < 32 ->
  ut_name i = Some nm -> ut_name j = Some nm -> i = j.
Proof. exact unit_type_injective. Qed.
Print Assumptions C20_unit_type_distinct.

(* ... distinct as values: the crate's own `==` on UnitType::for_id a, UnitType::for_id b (row 32a+b) holds exactly when a = b *)
Theorem C20_unit_type_eq : forall a b, a < 32 -> b < 32 -> lookup (32 * a + b) impl_uteq = Some (Some (a =? b)).
Proof. exact unit_type_eq. Qed.
Print Assumptions C20_unit_type_eq.

(* profile_idc -> Profile -> profile_idc, and the ProfileIdc wrapper *)
Theorem C20_profile : forall b, b < 256 ->
  exists nm ci, lookup b impl_prof = Some (b, nm, ci, b).
Proof. exact profile_roundtrip. Qed.
Print Assumptions C20_profile.

(* (flags, level_idc) -> Level -> level_idc; 1b vs 1.1 decided by constraint flag 3 only *)
Theorem C20_level : forall f l, f < 256 -> l < 256 ->
  exists nm, impl_level f l = Some (l, nm) /\
    (name_is nm "L1_b" = true <-> l = 11 /\ flag3 f = true) /\
    (name_is nm "L1_1" = true <-> l = 11 /\ flag3 f = false).
Proof. exact level_roundtrip. Qed.
Print Assumptions C20_level.

(* the conversions are functions of their arguments: asked again in another order (level outermost, flags in Gray-code
   order, each followed by the pair differing in flag 3 only) the crate gave no answer that differs from the first sweep *)
Theorem C20_order_independent : impl_order_dependent = [].
Proof. reflexivity. Qed.
Print Assumptions C20_order_independent.

Theorem C20_flags : forall b, b < 256 ->
  lookup b impl_cf = Some (bitn b 7, bitn b 6, bitn b 5, bitn b 4, bitn b 3, bitn b 2, b mod 4, b).
Proof. exact constraint_flags_preserved. Qed.
Print Assumptions C20_flags.

(* id wrappers on the probe set 0..300, 2^k-1, 2^k, 2^k+1 (k=8..31), u32::MAX-1, u32::MAX *)
Theorem C20_ids : forall x r,
  (In (x, r) impl_spsid -> (r = Some x /\ x <= 31) \/ (r = None /\ 31 < x)) /\
  (In (x, r) impl_ppsid -> (r = Some x /\ x <= 255) \/ (r = None /\ 255 < x)).
Proof. exact id_wrappers. Qed.
Print Assumptions C20_ids.

Theorem C20_ids_probed : probe_covers impl_spsid = true /\ probe_covers impl_ppsid = true.
Proof. exact (conj spsid_probes ppsid_probes). Qed.
Print Assumptions C20_ids_probed.
