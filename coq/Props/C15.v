(* C15 - A NAL over head+tail chunks reads as their concatenation; partial NALs block. *)
From H264 Require Import Base.Prelude Model.RefNal Model.Nal Proofs.C15_proofs Proofs.TablesLib Gen.ImplTables Proofs.Tables.

(* any interleaving of read / fill_buf / consume (within the buffer) hands over a prefix of
   head ++ concat tail, each byte once and in order: delivered ++ still-to-come = everything *)
Theorem C15_all_ops : forall head tl c ops, head <> [] -> Forall (fun ch => ch <> []) tl ->
  let '(delivered, r') := rrun (rdr_of_nal head tl c) ops in
  delivered ++ rdr_remaining r' = head ++ concat tl /\ wf r' /\ complete r' = c.
Proof.
  intros head tl c ops Hh Ht. pose proof (rrun_spec ops _ (wf_of_nal head tl c Hh Ht)) as H.
  destruct (rrun (rdr_of_nal head tl c) ops) as [d r']. destruct H as (H1 & H2 & H3).
  split; [symmetry; exact H3|]. split; assumption.
Qed.
Print Assumptions C15_all_ops.

(* one read: at most n bytes, the next ones, and empty only when nothing was asked or at the end of a complete NAL *)
Theorem C15_read : forall r n, wf r ->
  match rdr_read r n with
  | OK (bytes, r') =>
      wf r' /\ complete r' = complete r /\ rdr_remaining r = bytes ++ rdr_remaining r' /\
      (length bytes <= n)%nat /\
      (bytes = [] -> n = 0%nat \/ (rdr_remaining r = [] /\ complete r = true))
  | ERR k => k = WouldBlock /\ rdr_remaining r = [] /\ complete r = false /\ n <> 0%nat
  | _ => False
  end.
Proof. exact read_spec. Qed.
Print Assumptions C15_read.

Theorem C15_fill_consume : forall r, wf r ->
  match rdr_fill_buf r with
  | OK b => b = cur r /\ (b = [] -> rdr_remaining r = [] /\ complete r = true) /\
            forall k, (k <= length b)%nat ->
              exists r', rdr_consume r k = OK r' /\ wf r' /\ complete r' = complete r /\
                         rdr_remaining r = firstn k b ++ rdr_remaining r'
  | ERR k => k = WouldBlock /\ rdr_remaining r = [] /\ complete r = false
  | _ => False
  end.
Proof.
  intros r Hwf. pose proof (fill_buf_spec r Hwf) as H. destruct (rdr_fill_buf r) as [b|e| |]; try exact H.
  destruct H as [-> H]. split; [reflexivity|]. split; [exact H|]. intros k Hk. apply consume_spec; assumption.
Qed.
Print Assumptions C15_fill_consume.

(* after the last byte: a complete NAL reports end of data again and again ... *)
Theorem C15_end_complete : forall r n, wf r -> rdr_remaining r = [] -> complete r = true ->
  rdr_fill_buf r = OK [] /\
  exists r', rdr_read r (S n) = OK ([], r') /\ rdr_remaining r' = [] /\ wf r' /\ complete r' = true.
Proof. exact at_end_complete. Qed.
Print Assumptions C15_end_complete.

(* ... an incomplete one reports WouldBlock, and never end of data at any point *)
Theorem C15_end_incomplete : forall r n, wf r -> rdr_remaining r = [] -> complete r = false ->
  rdr_fill_buf r = ERR WouldBlock /\ rdr_read r (S n) = ERR WouldBlock.
Proof. exact at_end_incomplete. Qed.
Print Assumptions C15_end_incomplete.

Theorem C15_never_eof_when_incomplete : forall r, wf r -> complete r = false ->
  rdr_fill_buf r <> OK [] /\ (forall n r', rdr_read r (S n) <> OK ([], r')).
Proof. exact incomplete_never_eof. Qed.
Print Assumptions C15_never_eof_when_incomplete.

(* header accessors decode the first byte: the model's accessors are the implementation's table *)
Theorem C15_header : forall b, b < 256 -> lookup b impl_hdr = Some (model_hdr_row b).
Proof. exact hdr_model_eq_impl. Qed.
Print Assumptions C15_header.

(* clones: readers are immutable values in the model, so a clone continues independently by
   construction; the correspondence check forks real readers to observe it *)
Example C15_ex :
  rrun (rdr_of_nal [81; 1] [[2]; [3; 4]] false) [RRead 1; RFill; RConsume 1; RRead 5; RRead 5; RRead 5]
  = ([81; 1; 2; 3; 4], mk_rdr [] [] false).
Proof. vm_compute. reflexivity. Qed.
