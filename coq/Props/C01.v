(* C01 - Annex B NAL framing is invariant under push chunking and matches start codes. *)
From H264 Require Import Base.Prelude Model.AnnexB Spec.AnnexBSpec
     Proofs.AnnexB_sem Proofs.AnnexB_compose.

(* `feed_calls k ([], [])` is what a fragment handler has received through the calls k:
   (units ended so far, bytes of the still-open unit).  `pushes st cs` pushes the pieces cs. *)

(* For every stream and every way of cutting it into pushes (empty pieces included), the units
   delivered after a final reset are exactly the Annex B segmentation of the whole stream,
   each ended once, nothing left open. *)
Theorem C01_chunk_invariance : forall cs,
  let '(st, k) := pushes AStart cs in
  feed_calls (k ++ snd (reset st)) ([], []) = (segment (concat cs), []).
Proof. exact pushes_reset_segment. Qed.
Print Assumptions C01_chunk_invariance.

(* Without reset: two partitions of the same stream leave the reader in the same state and have
   delivered the same closed units and the same bytes of the open unit (from any state, any history). *)
Theorem C01_no_reset : forall cs cs' st a, concat cs = concat cs' ->
  fst (pushes st cs) = fst (pushes st cs') /\
  feed_calls (snd (pushes st cs)) a = feed_calls (snd (pushes st cs')) a.
Proof. exact chunking_irrelevant. Qed.
Print Assumptions C01_no_reset.

Example C01_ex :
  segment [0;0;0;1; 103;1;0; 0;0;1; 104;0;0;2;0; 0;0;0; 9; 0;0;1; 7;0;0]
  = [[103;1]; [104;0;0;2]; [7;0;0]]
  /\ (let '(st, k) := pushes AStart [[0;0]; []; [0;1;103]; [1;0;0]; [0;1;104;0]; [0;2;0;0;0;0;9;0;0;1;7;0]; [0]] in
      feed_calls (k ++ snd (reset st)) ([], [])) = ([[103;1]; [104;0;0;2]; [7;0;0]], []).
Proof. vm_compute. split; reflexivity. Qed.
