(* C09 - A validated AVC config record yields exactly its parameter sets, never panics. *)
From H264 Require Import Base.Prelude Model.Nal Model.Source Model.Avcc Model.Sps Model.Context Model.Pps Spec.AvccSpec Proofs.C09_proofs Proofs.AvccConverse.
Local Open Scope N_scope.

(* records built from lists of parameter-set NAL units (<= 31 SPS, <= 255 PPS, each <= 65535 bytes,
   any reserved bits, any trailing extension bytes): construction succeeds; the iterators yield
   exactly those NAL byte strings, in order, when they are SPS / PPS NALs *)
Theorem C09_build : forall h spss ppss trailing,
  (length spss <= 31)%nat -> (length ppss <= 255)%nat -> ah_reserved3 h <= 7 ->
  Forall nal_len_ok spss -> Forall nal_len_ok ppss ->
  try_from (build_avcc h spss ppss trailing) = OK tt /\
  (Forall (nal_like 7) spss -> sequence_parameter_sets (build_avcc h spss ppss trailing) = OK (map ItOk spss)) /\
  (Forall (nal_like 8) ppss -> picture_parameter_sets (build_avcc h spss ppss trailing) = OK (map ItOk ppss)).
Proof. exact build_ok. Qed.
Print Assumptions C09_build.

(* converse: every byte string the construction accepts IS a record built from some header fields, at most 31 SPS
   and 255 PPS byte strings of at most 65535 bytes each, and trailing bytes *)
Theorem C09_converse : forall data, bytes_ok data -> try_from data = OK tt ->
  exists h spss ppss trailing, data = build_avcc h spss ppss trailing /\
    (length spss <= 31)%nat /\ (length ppss <= 255)%nat /\ ah_reserved3 h <= 7 /\
    Forall nal_len_ok spss /\ Forall nal_len_ok ppss.
Proof. exact try_from_converse. Qed.
Print Assumptions C09_converse.

(* once construction has succeeded on ANY bytes, no iterator and no context creation can panic;
   every yielded NAL is non-empty (what RefNal::new needs) *)
Theorem C09_no_panic : forall data, try_from data = OK tt ->
  (exists l, sequence_parameter_sets data = OK l /\ Forall item_ok l) /\
  (exists l, picture_parameter_sets data = OK l /\ Forall item_ok l) /\
  no_abort (create_context data).
Proof.
  intros data H. destruct (iterators_after_try_from data H) as [Hs Hp].
  split; [exact Hs|]. split; [exact Hp|]. apply create_context_no_abort. exact H.
Qed.
Print Assumptions C09_no_panic.

(* construction itself never panics *)
Theorem C09_try_from_total : forall data, no_abort (try_from data).
Proof. exact try_from_no_abort. Qed.
Print Assumptions C09_try_from_total.

(* any truncation of an accepted record inside its declared parameter sets is refused *)
Theorem C09_truncation : forall data, try_from data = OK tt ->
  exists e, (e <= length data)%nat /\
    forall k, (k < e)%nat -> exists x, try_from (firstn k data) = ERR (NotEnoughData x k).
Proof. exact try_from_truncated. Qed.
Print Assumptions C09_truncation.

Theorem C09_version : forall data v, (6 <= length data)%nat -> nth_error data 0%nat = Some v -> v <> 1 ->
  try_from data = ERR (UnsupportedConfigurationVersion v).
Proof. exact version_refused. Qed.
Print Assumptions C09_version.

Example C09_ex_d2 : try_from [1; 66; 0; 30; 255; 224; 1; 0; 0] = OK tt /\
                    picture_parameter_sets [1; 66; 0; 30; 255; 224; 1; 0; 0] = OK [ItErr "EmptyNal"].
Proof. vm_compute. split; reflexivity. Qed.
