(* C07 - Bit reader decodes every u(n)/ue(v)/se(v) codeword to the standard's value.
   Statements only.  Arbitrary bit offsets are covered because every statement holds for an
   arbitrary source (any `rest`, any state reached by earlier reads). *)
From H264 Require Import Base.Prelude Base.Bits Model.BitReader Spec.Golomb Proofs.C07_proofs.
Local Open Scope N_scope.

(* every codeNum 0 .. 2^32-2 is decoded, and exactly the codeword is consumed *)
Theorem C07_ue_roundtrip : forall n nm rest tl, n < 4294967295 ->
  read_ue nm (mk_src (enc_ue n ++ rest) tl) = OK (n, mk_src rest tl).
Proof. intros; apply read_ue_roundtrip; assumption. Qed.
Print Assumptions C07_ue_roundtrip.

(* conversely a successful read consumed exactly the codeword of the value returned *)
Theorem C07_ue_unique : forall nm s n s', read_ue nm s = OK (n, s') ->
  n < 4294967295 /\ bits s = enc_ue n ++ bits s' /\ tail s' = tail s.
Proof. exact read_ue_sound. Qed.
Print Assumptions C07_ue_unique.

(* the signed mapping (-1)^(k+1) Ceil(k/2), without overflow, for every codeNum *)
Theorem C07_se_value : forall k, k < 4294967295 -> golomb_to_signed k = OK (se_of_codenum k).
Proof. exact golomb_to_signed_value. Qed.
Print Assumptions C07_se_value.

Theorem C07_se_roundtrip : forall z nm rest tl, (- 2147483647 <= z <= 2147483647)%Z ->
  read_se nm (mk_src (enc_se z ++ rest) tl) = OK (z, mk_src rest tl).
Proof. intros; apply read_se_roundtrip; assumption. Qed.
Print Assumptions C07_se_roundtrip.

Theorem C07_se_unique : forall nm s z s', read_se nm s = OK (z, s') ->
  exists k, k < 4294967295 /\ z = se_of_codenum k /\ bits s = enc_ue k ++ bits s' /\ tail s' = tail s.
Proof. exact read_se_sound. Qed.
Print Assumptions C07_se_unique.

(* fixed-width reads: the big-endian value of exactly n bits, n up to the container width *)
Theorem C07_u : forall width n v nm rest tl, n <= width -> v < 2 ^ n ->
  read_u width n nm (mk_src (to_bits (N.to_nat n) v ++ rest) tl) = OK (v, mk_src rest tl).
Proof. intros; apply read_u_roundtrip; assumption. Qed.
Print Assumptions C07_u.

Theorem C07_u_unique : forall width n nm s v s', read_u width n nm s = OK (v, s') ->
  n <= width /\ v < 2 ^ n /\ bits s = to_bits (N.to_nat n) v ++ bits s' /\ tail s' = tail s.
Proof. exact read_u_sound. Qed.
Print Assumptions C07_u_unique.

(* 32 or more leading zero bits: too large, never a value *)
Theorem C07_too_large : forall z nm rest tl, (32 <= z)%nat ->
  read_ue nm (mk_src (repeat false z ++ true :: rest) tl) = ERR (ExpGolombTooLarge nm).
Proof. intros; apply read_ue_too_large; assumption. Qed.
Print Assumptions C07_too_large.

(* a codeword cut short by the end of data: a read error naming the field *)
Theorem C07_truncated : forall n nm bs tl, n < 4294967295 ->
  (exists more, more <> [] /\ bs ++ more = enc_ue n) ->
  read_ue nm (mk_src bs tl) = ERR (ReaderErrorFor nm (kind_of_tail tl)).
Proof. intros n nm bs tl Hn Hex; exact (read_ue_truncated n nm bs tl Hn Hex). Qed.
Print Assumptions C07_truncated.

(* the reads never panic or overflow (their unchecked u32/i32 operators stay in range) *)
Theorem C07_no_abort : forall nm s, no_abort (read_ue nm s) /\ no_abort (read_se nm s).
Proof. intros; split; [apply read_ue_no_abort|apply read_se_no_abort]. Qed.
Print Assumptions C07_no_abort.

(* non-vacuity: the extreme codewords *)
Example C07_ex_max : read_ue "x" (mk_src (enc_ue 4294967294 ++ [true]) TEof) = OK (4294967294, mk_src [true] TEof).
Proof. vm_compute. reflexivity. Qed.
Example C07_ex_se_min : read_se "x" (mk_src (enc_se (-2147483647)) TEof) = OK ((-2147483647)%Z, mk_src [] TEof).
Proof. vm_compute. reflexivity. Qed.
Example C07_ex_se3 : map se_of_codenum [0; 1; 2; 3; 4; 5; 6] = [0; 1; -1; 2; -2; 3; -3]%Z.
Proof. vm_compute. reflexivity. Qed.
