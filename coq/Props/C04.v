(* C04 - SPS parsing recovers exactly the values encoded per H.264 7.3.2.1 / Annex E.
   enc_sps (Spec/SyntaxSps.v) is the standard's syntax table written as an encoder; wf_sps the ranges
   the standard allows.  `lists` are the coded delta_scale values of the 8 / 12 scaling lists; the
   structure carries what the standard derives from them (7.3.2.1.1.1), incl. the not-present /
   use-default / explicit distinction. *)
From H264 Require Import Base.Prelude Base.Bits Model.BitReader Model.Parser Model.Sps Spec.Golomb Spec.SyntaxSps
     Proofs.Parses Proofs.SpsRoundtrip Proofs.SpsInv Proofs.Wp Proofs.SpsConverse Proofs.C14_proofs.
Local Open Scope N_scope.

(* every conforming SPS, encoded and followed by rbsp trailing bits (with any number of trailing
   zero bits), parses to a structure in which every field equals the encoded value *)
Theorem C04_roundtrip : forall x lists k, wf_sps x lists ->
  sps_from_bits (mk_src (enc_sps x lists ++ trailing_bits k) TEof) = OK x.
Proof. exact sps_roundtrip. Qed.
Print Assumptions C04_roundtrip.

(* the parse consumes exactly up to the trailing bits: whatever else follows the structure is refused *)
Theorem C04_exact_consumption : forall x lists t, wf_sps x lists ->
  (sps_from_bits (mk_src (enc_sps x lists ++ t) TEof) = OK x <-> exists k, t = trailing_bits k).
Proof. exact sps_exact_consumption. Qed.
Print Assumptions C04_exact_consumption.

(* the structure itself is recovered whatever follows it, on any kind of source *)
Theorem C04_body : forall x lists rest tl, wf_sps x lists ->
  sps_body (mk_src (enc_sps x lists ++ rest) tl) = OK (x, mk_src rest tl).
Proof. intros x lists rest tl H. apply (parses_sps_body x lists H). Qed.
Print Assumptions C04_body.

(* converse: every bit string the structure parser accepts IS the encoding of the structure it returns (for some
   coded scaling-list deltas - the only information the structure does not keep), followed by what it left
   unread: nothing is skipped, re-read or read under another descriptor, and the returned value is in range *)
Theorem C04_converse : forall s v s', sps_body s = OK (v, s') ->
  (exists lists, bits s = enc_sps v lists ++ bits s' /\ tail s' = tail s) /\ inv_sps v.
Proof.
  intros s v s' H. split; [exact (sps_body_converse s v s' H)|].
  pose proof (wp_sps_body s (fun v s' => inv_sps v) (fun v s' Hi _ => Hi)) as Hw. rewrite H in Hw. exact Hw.
Qed.
Print Assumptions C04_converse.

(* hence the accepted language of the whole parser is exactly: an encoding followed by rbsp trailing bits *)
Theorem C04_accepted_language : forall bs v, sps_from_bits (mk_src bs TEof) = OK v ->
  exists lists k, bs = enc_sps v lists ++ trailing_bits k.
Proof.
  intros bs v H. unfold sps_from_bits in H.
  destruct (sps_body (mk_src bs TEof)) as [[v0 s']| | |] eqn:Eb; try discriminate.
  destruct (sps_body_converse _ _ _ Eb) as (lists & Hbits & Ht). cbn [bits tail] in *.
  destruct (finish_rbsp s') as [[]| | |] eqn:Ef; try discriminate. injection H as <-.
  apply (finish_rbsp_ok_iff s' Ht) in Ef. destruct Ef as [k Hk].
  exists lists, k. rewrite Hbits, Hk. reflexivity.
Qed.
Print Assumptions C04_accepted_language.

(* non-vacuity: a High-profile SPS with VUI, HRD, cropping and a use-default scaling list *)
Example C04_ex :
  let hrd := mk_hrd 1 2 [mk_cpb 100 200 true; mk_cpb 7 0 false] 23 23 23 24 in
  let vui := mk_vui (Some (ArExtended 4 3)) OvAppropriate (Some (mk_vst 5 true (Some (mk_cd 1 1 1)))) (Some (mk_cli 0 1))
                    (Some (mk_ti 1001 60000 true)) (Some hrd) None (Some false) true (Some (mk_br true 2 1 16 16 0 4)) in
  let x := mk_sps 100 0 40 3 (mk_chroma_info YUV420 false 2 2 false
                               (Some (mk_ssm [SlUseDefault; SlNotPresent; SlNotPresent; SlNotPresent; SlNotPresent; SlNotPresent]
                                             [SlNotPresent; SlNotPresent])))
                  4 (PocTypeOne true (-3) 5 [1; -1]%Z) 4 false 119 67 (Fields true) true (Some (mk_crop 0 0 0 4)) (Some vui) in
  let lists := Some [Some [(-8)%Z]; None; None; None; None; None; None; None] in
  sps_from_bits (mk_src (enc_sps x lists ++ trailing_bits 3) TEof) = OK x.
Proof. vm_compute. reflexivity. Qed.
