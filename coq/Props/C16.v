(* C16 - Accepted parameter sets and slice headers satisfy documented range invariants.
   inv_sps / inv_pps / inv_slice (Proofs/SpsInv.v, PpsInv.v, SliceInv.v) spell the bounds out. *)
From H264 Require Import Base.Prelude Model.BitReader Model.Parser Model.Sps Model.Context Model.Pps Model.Slice
     Proofs.Wp Proofs.SpsInv Proofs.PpsInv Proofs.SliceInv Proofs.C19_proofs.
Local Open Scope N_scope.

(* whatever the input, an accepted SPS has id < 32, log2 frame-num / POC-lsb sizes <= 12+4 = 16,
   bit depths <= 6+8 = 14, at most 255 POC cycle offsets, 1..32 CPB entries per HRD, bitstream
   restriction fields within limits and consistent with max_num_ref_frames, and 6 + (2|6) scaling
   lists of 16 / 64 non-zero entries matching the chroma format *)
Theorem C16_sps : forall s, match sps_from_bits s with OK v => inv_sps v | ERR _ => True | _ => False end.
Proof. exact sps_from_bits_inv. Qed.
Print Assumptions C16_sps.

(* under any context of accepted SPS, an accepted PPS refers to an SPS in the context, has
   reference counts <= 32, <= 8 slice groups, QP/QS/chroma offsets in range *)
Theorem C16_pps : forall c s, ctx_sps_ok c ->
  match pps_from_bits c s with OK p => inv_pps c p | ERR _ => True | _ => False end.
Proof. exact pps_from_bits_inv. Qed.
Print Assumptions C16_pps.

(* an accepted slice header: frame_num and POC lsb below the declared moduli, reference counts
   <= 32, slice QS in 0..51, and the returned ids name context entries (PPS, and the SPS it refers to) *)
Theorem C16_slice : forall c hdr s, ctx_ok c ->
  match slice_header_read c hdr s with
  | OK ((h, sid, pid), _) => inv_slice c h sid pid
  | ERR _ => True
  | _ => False
  end.
Proof.
  intros c hdr s Hc.
  pose proof (wp_slice_header c hdr s (fun r _ => inv_slice c (fst (fst r)) (snd (fst r)) (snd r)) Hc (fun r s' H _ => H)) as H.
  destruct (slice_header_read c hdr s) as [[[[h sid] pid] s']| | |]; exact H.
Qed.
Print Assumptions C16_slice.

(* the context invariant is preserved by inserting accepted sets: the history quantifier *)
Theorem C16_ctx_history : forall c s v, ctx_sps_ok c -> sps_from_bits s = OK v -> ctx_sps_ok (put_seq_param_set c v).
Proof.
  intros c s v Hc Hv id sp Hget. pose proof (sps_from_bits_inv s) as Hi. rewrite Hv in Hi.
  destruct (N.eq_dec id (seq_parameter_set_id v)) as [->|Hne].
  - rewrite sps_lookup_after_put in Hget. injection Hget as <-. exact Hi.
  - rewrite sps_lookup_other in Hget by exact Hne. exact (Hc _ _ Hget).
Qed.
Print Assumptions C16_ctx_history.

Example C16_ex_empty : ctx_sps_ok ctx_empty.
Proof. intros id sp H. unfold sps_by_id, ctx_empty in H. cbn in H. unfold Context.map_get in H. destruct (N.to_nat id); discriminate. Qed.
