(* C17 - Parsing a partially buffered NAL never contradicts parsing the complete NAL.
   A partial NAL is, for the parsers, a bit source whose bits are a prefix of the complete NAL's and whose
   tail is WouldBlock: C17_partial_view proves this from the byte layers (chunked reader + RBSP reader,
   C15 + C02) for every clean NAL, every prefix of it and any two chunkings.  `mono` : on the prefix a parser
   blocks, or returns the same value as on the whole (sources still related), or fails where the whole
   fails.  Proved: all primitives and combinators; the whole SPS, PPS and slice-header parsers (their
   fuelled loops take fuel from the source length - shown insensitive to the extra fuel of the longer
   source); SPS and PPS never succeed on a proper prefix; the SEI reader on a prefix yields a prefix of the
   complete message sequence and then a would-block failure.  Purity holds in the model by construction
   (values, no hidden state); reuse of scratch storage is observed by the correspondence run only. *)
From H264 Require Import Base.Prelude Base.Bits Spec.Escape Model.BitReader Model.Parser Model.RefNal Model.Rbsp Model.Source
     Model.Sps Model.Context Model.Pps Model.Slice Model.Sei Model.Driver
     Proofs.C17_proofs Proofs.C17_more Proofs.C17_tie.

Theorem C17_primitives : forall nm w n,
  mono blocked (read_bool nm) /\ mono blocked (read_u w n nm) /\ mono blocked (read_ue nm) /\
  mono blocked (read_se nm) /\ mono blocked (skip n nm) /\ mono blocked (has_more_rbsp_data nm).
Proof.
  intros nm w n. repeat split;
    [apply mono_read_bool|apply mono_read_u|apply mono_read_ue|apply mono_read_se|apply mono_skip|apply mono_has_more].
Qed.
Print Assumptions C17_primitives.

Theorem C17_combinators : forall (E A B : Type) (blk : E -> Prop) (p : PE E A) (k : A -> PE E B) n,
  mono blk p -> (forall a, mono blk (k a)) -> mono blk (bindE p k) /\ mono blk (repE n p).
Proof. intros E A B blk p k n Hp Hk. split; [apply mono_bind; assumption|apply mono_repE; exact Hp]. Qed.
Print Assumptions C17_combinators.

(* what the parsers see of a partially buffered NAL: for a clean NAL given as chunks head2 :: tl2 and any
   prefix of its bytes given as chunks head1 :: tl1 of an incomplete NAL, the two bit sources built by the
   byte layers are in the prefix relation (and the complete one is the unescaped payload) *)
Theorem C17_partial_view : forall head1 tl1 head2 tl2 more p,
  head1 <> [] -> Forall (fun ch => ch <> []) tl1 -> head2 <> [] -> Forall (fun ch => ch <> []) tl2 ->
  head2 ++ concat tl2 = (head1 ++ concat tl1) ++ more ->
  unescape (skipn 1 (head2 ++ concat tl2)) = Some p ->
  prefix_src (bitsrc_of_source (SrcNal false (head1 :: tl1))) (bitsrc_of_source (SrcNal true (head2 :: tl2))) /\
  bitsrc_of_source (SrcNal true (head2 :: tl2)) = mk_src (bits_of_bytes p) TEof.
Proof. exact partial_nal_prefix_src. Qed.
Print Assumptions C17_partial_view.

(* the structure parsers are monotone ... *)
Theorem C17_sps_body : mono blk_sps sps_body.
Proof. exact mono_sps_body. Qed.
Print Assumptions C17_sps_body.

Theorem C17_pps_body : forall ctx, mono blk_pps (pps_body ctx).
Proof. exact mono_pps_body. Qed.
Print Assumptions C17_pps_body.

(* a slice header accepted from a prefix equals the one parsed from the whole NAL; a failure on the prefix
   is "would block" or a failure on the whole *)
Theorem C17_slice_header : forall ctx hdr, mono blk_slice (slice_header_read ctx hdr).
Proof. exact mono_slice_header. Qed.
Print Assumptions C17_slice_header.

(* ... and SPS / PPS parsing, which must see the end of the RBSP, never succeeds on a proper prefix; when
   it fails for another reason than "would block", the complete NAL fails too *)
Theorem C17_sps_never_ok_on_prefix : forall s1 s2, prefix_src s1 s2 ->
  match sps_from_bits s1 with
  | OK _ => False
  | ERR e => blk_sps e \/ exists e', sps_from_bits s2 = ERR e'
  | _ => True
  end.
Proof. exact sps_prefix_consistent. Qed.
Print Assumptions C17_sps_never_ok_on_prefix.

Theorem C17_pps_never_ok_on_prefix : forall ctx s1 s2, prefix_src s1 s2 ->
  match pps_from_bits ctx s1 with
  | OK _ => False
  | ERR e => blk_pps e \/ exists e', pps_from_bits ctx s2 = ERR e'
  | _ => True
  end.
Proof. exact pps_prefix_consistent. Qed.
Print Assumptions C17_pps_never_ok_on_prefix.

Theorem C17_finish_needs_end : forall s, tail s <> TEof ->
  (forall u, finish_rbsp s <> OK u) /\ (forall u, finish_sei_payload s <> OK u).
Proof. intros s H. split; [apply finish_rbsp_partial|apply finish_sei_partial]; exact H. Qed.
Print Assumptions C17_finish_needs_end.

(* the SEI reader over a partially buffered NAL: the messages it yields are a prefix of those of the
   complete NAL, and it then fails with "would block" (or exactly as the complete NAL fails); it never
   reports the end of the messages *)
Theorem C17_sei_reader : forall fuel r1 r2, prefix_reader r1 r2 ->
  let '(ms1, e1) := sei_collect fuel r1 in
  let '(ms2, e2) := sei_collect fuel r2 in
  exists rest, ms2 = ms1 ++ rest /\
    match e1 with
    | ERR e => blocked e \/ (rest = [] /\ e2 = ERR e)
    | OK _ => False
    | _ => True
    end.
Proof. exact sei_collect_prefix. Qed.
Print Assumptions C17_sei_reader.

Theorem C17_sei_partial_view : forall head1 tl1 head2 tl2 more p,
  head1 <> [] -> Forall (fun ch => ch <> []) tl1 -> head2 <> [] -> Forall (fun ch => ch <> []) tl2 ->
  head2 ++ concat tl2 = (head1 ++ concat tl1) ++ more ->
  unescape (skipn 1 (head2 ++ concat tl2)) = Some p ->
  prefix_reader (sei_new (bytesrc_of_source (SrcNal false (head1 :: tl1)))) (sei_new (bytesrc_of_source (SrcNal true (head2 :: tl2)))).
Proof. exact partial_nal_prefix_reader. Qed.
Print Assumptions C17_sei_partial_view.

(* non-vacuity: a 3-chunk prefix of a NAL with an escape, against the whole NAL in 2 chunks *)
Example C17_ex :
  prefix_src (bitsrc_of_source (SrcNal false [[103; 66]; [0; 0]; [3]])) (bitsrc_of_source (SrcNal true [[103; 66; 0]; [0; 3; 1; 128]])) /\
  bitsrc_of_source (SrcNal false [[103; 66]; [0; 0]; [3]]) = mk_src (bits_of_bytes [66; 0; 0]) TWouldBlock.
Proof.
  split; [|vm_compute; reflexivity].
  apply (partial_nal_prefix_src [103; 66] [[0; 0]; [3]] [103; 66; 0] [[0; 3; 1; 128]] [1; 128] [66; 0; 0; 1; 128]);
    try discriminate; try (repeat constructor; discriminate); reflexivity.
Qed.
