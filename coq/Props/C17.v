(* C17 - Parsing a partially buffered NAL never contradicts parsing the complete NAL.
   A partial NAL is a source whose bits are a prefix of the complete NAL's and whose tail is WouldBlock
   (C02/C15 justify this view of the byte layers).  `mono` : on the prefix a parser blocks, or returns
   the same value as on the whole (sources still related), or fails where the whole fails.
   Proved: all primitives, closure under the combinators, the whole SPS parser.  PPS, slice header and
   SEI reader are built from the same primitives and combinators (plus fuelled loops whose fuel depends
   on the source length); for them the statement is carried by the correspondence check. Purity holds
   in the model by construction (values, no hidden state); reuse of scratch storage is observed only. *)
From H264 Require Import Base.Prelude Model.BitReader Model.Parser Model.Sps Proofs.C17_proofs.

Theorem C17_primitives : forall nm w n,
  mono blocked (read_bool nm) /\ mono blocked (read_u w n nm) /\ mono blocked (read_ue nm) /\
  mono blocked (read_se nm) /\ mono blocked (skip n nm) /\ mono blocked (has_more_rbsp_data nm).
Proof.
  intros nm w n. repeat split;
    [apply mono_read_bool|apply mono_read_u|apply mono_read_ue|apply mono_read_se|apply mono_skip|apply mono_has_more].
Qed.
Print Assumptions C17_primitives.

Theorem C17_combinators : forall (E A B : Type) (blk : E -> Prop) (p : PE E A) (k : A -> PE E B) n,
  mono blk p -> (forall a, mono blk (k a)) -> mono blk (bindE p k) /\ mono blk (repE n p).
Proof. intros E A B blk p k n Hp Hk. split; [apply mono_bind; assumption|apply mono_repE; exact Hp]. Qed.
Print Assumptions C17_combinators.

(* the SPS structure parser is monotone ... *)
Theorem C17_sps_body : mono blk_sps sps_body.
Proof. exact mono_sps_body. Qed.
Print Assumptions C17_sps_body.

(* ... and SPS parsing, which must see the end of the RBSP, never succeeds on a proper prefix; when it
   fails for another reason than "would block", the complete NAL fails too *)
Theorem C17_sps_never_ok_on_prefix : forall s1 s2, prefix_src s1 s2 ->
  match sps_from_bits s1 with
  | OK _ => False
  | ERR e => blk_sps e \/ exists e', sps_from_bits s2 = ERR e'
  | _ => True
  end.
Proof. exact sps_prefix_consistent. Qed.
Print Assumptions C17_sps_never_ok_on_prefix.

(* PPS / SEI payloads likewise end with a check that needs the end of data *)
Theorem C17_finish_needs_end : forall s, tail s <> TEof ->
  (forall u, finish_rbsp s <> OK u) /\ (forall u, finish_sei_payload s <> OK u).
Proof. intros s H. split; [apply finish_rbsp_partial|apply finish_sei_partial]; exact H. Qed.
Print Assumptions C17_finish_needs_end.
