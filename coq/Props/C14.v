(* C14 - more_rbsp_data / trailing-bits checks are exact at every bit position.
   `bits s` is everything from the current position on, so "any position" is "any s". *)
From H264 Require Import Base.Prelude Base.Bits Model.BitReader Proofs.C14_proofs.

(* the query is true exactly when some 1 bit lies strictly after the current bit, and the
   source it hands back is the source it was given (the reader does not move) *)
Theorem C14_more : forall nm s, tail s = TEof ->
  exists b, has_more_rbsp_data nm s = OK (b, s) /\
            (b = true <-> exists j, nth (S j) (bits s) false = true).
Proof.
  intros nm s Ht. rewrite has_more_spec, Ht. exists (any_one (List.tl (bits s))).
  split; [destruct (any_one _); reflexivity|].
  rewrite any_one_nth. destruct (bits s) as [|b r]; cbn [List.tl].
  - split; intros [j H]; destruct j; discriminate.
  - split; intros [j H]; exists j; exact H.
Qed.
Print Assumptions C14_more.

(* on a partial or corrupt NAL the query may answer true (a later 1 is already there) but never false *)
Theorem C14_more_blocked : forall nm s, tail s <> TEof ->
  has_more_rbsp_data nm s = OK (true, s) \/
  has_more_rbsp_data nm s = ERR (ReaderErrorFor nm (kind_of_tail (tail s))).
Proof.
  intros nm s Ht. rewrite has_more_spec. destruct (any_one _); [left; reflexivity|right].
  destruct (tail s); [congruence|reflexivity|reflexivity].
Qed.
Print Assumptions C14_more_blocked.

(* finishing succeeds exactly on 1 0^k (any number of trailing zero bits/bytes) *)
Theorem C14_finish : forall s, tail s = TEof ->
  (finish_rbsp s = OK tt <-> exists k, bits s = true :: repeat false k).
Proof. exact finish_rbsp_ok_iff. Qed.
Print Assumptions C14_finish.

(* any other remainder: remaining data iff a 1 follows the current bit, otherwise a read error *)
Theorem C14_finish_errors : forall s,
  (finish_rbsp s = ERR RemainingData <-> any_one (List.tl (bits s)) = true) /\
  (forall u, finish_rbsp s = OK u -> tail s = TEof).
Proof.
  intros s. split; [apply finish_rbsp_remaining_iff|].
  intros u. rewrite finish_rbsp_spec. destruct (bits s) as [|b r]; [discriminate|].
  destruct (any_one r); [discriminate|]. destruct b; [|discriminate]. destruct (tail s); [reflexivity|discriminate|discriminate].
Qed.
Print Assumptions C14_finish_errors.

Theorem C14_finish_sei : forall s, tail s = TEof ->
  (finish_sei_payload s = OK tt <-> bits s = [] \/ exists k, bits s = true :: repeat false k).
Proof. exact finish_sei_ok_iff. Qed.
Print Assumptions C14_finish_sei.

Example C14_ex : has_more_rbsp_data "x" (mk_src [true; false; false; true; false] TEof)
                 = OK (true, mk_src [true; false; false; true; false] TEof)
              /\ finish_rbsp (mk_src (true :: repeat false 19) TEof) = OK tt
              /\ finish_rbsp (mk_src [false; true] TEof) = ERR RemainingData.
Proof. vm_compute. repeat split. Qed.
