(* C10 - SEI reader yields exactly the encoded (type,payload) messages, then stays ended. *)
From H264 Require Import Base.Prelude Model.BitReader Model.Sei Spec.SeiSpec Proofs.SeiProofs Proofs.C10_proofs Proofs.C10_converse.
Local Open Scope N_scope.

(* every non-empty list of messages whose types and sizes fit 32 bits, coded with 0xFF extension
   bytes and followed by the trailing-bits byte, is returned message by message (type 128 included,
   in any position), then the end is reported - on this and on every further call *)
Theorem C10_messages : forall msgs extra, Forall msg_ok msgs -> msgs <> [] ->
  iterate (length msgs + 1 + extra) (sei_new (mk_bsrc (enc_sei msgs) TEof)) =
  map (fun m => OK (Some (mk_msg (fst m) (snd m)))) msgs ++ OK None :: repeat (OK None) extra.
Proof. intros msgs extra Hok Hne. apply sei_messages; [exact Hok|left; exact Hne]. Qed.
Print Assumptions C10_messages.

(* fused: after the end or any error the reader is done, and a done reader reports the end forever *)
Theorem C10_fused : forall r,
  (match fst (sei_next r) with OK (Some _) => True | _ => sr_done (snd (sei_next r)) = true end) /\
  (sr_done r = true -> sei_next r = (OK None, r)).
Proof. intros r. split; [apply sei_fused|apply sei_done_stays]. Qed.
Print Assumptions C10_fused.

(* a returned payload lies within the data (a payload running past the data is never returned),
   and next() never aborts *)
Theorem C10_within_data : forall r t p r', sei_next r = (OK (Some (mk_msg t p)), r') ->
  exists pre, sbytes (sr_src r) = pre ++ p ++ sbytes (sr_src r') /\ pre <> [].
Proof. exact sei_payload_within. Qed.
Print Assumptions C10_within_data.

(* a type or size coded with 0xFF extension bytes: exactly the values below 2^32 are returned; a value that does
   not fit 32 bits is InvalidData (2^32 - 1 = 16843009 bytes of 0xFF and a last byte 0) *)
Theorem C10_u32_overflow : forall nm n b rest t, b <> 255 ->
  read_u32 nm (mk_bsrc (repeat 255 n ++ b :: rest) t) =
  if 255 * N.of_nat n + b <? two32 then OK (255 * N.of_nat n + b, mk_bsrc rest t)
  else ERR (ReaderErrorFor nm InvalidData).
Proof. exact read_u32_boundary. Qed.
Print Assumptions C10_u32_overflow.

(* converse: every message the reader returns was coded at its position exactly as 7.3.2.3.1 prescribes - the 0xFF
   coding of the type, the 0xFF coding of the payload size, the payload - and the reader advanced by exactly that *)
Theorem C10_converse : forall r t p r', bytes_ok (sbytes (sr_src r)) ->
  sei_next r = (OK (Some (mk_msg t p)), r') ->
  sbytes (sr_src r) = enc_msg (t, p) ++ sbytes (sr_src r') /\ stail (sr_src r') = stail (sr_src r) /\
  t < two32 /\ N.of_nat (length p) < two32 /\ payloads_seen r' = payloads_seen r + 1.
Proof. exact sei_next_converse. Qed.
Print Assumptions C10_converse.

Theorem C10_total : forall r, no_abort (fst (sei_next r)).
Proof. exact sei_next_total. Qed.
Print Assumptions C10_total.

Example C10_ex : iterate 4 (sei_new (mk_bsrc (enc_sei [(128, [1; 2]); (300, []); (5, [0; 0; 3])]) TEof))
               = [OK (Some (mk_msg 128 [1; 2])); OK (Some (mk_msg 300 [])); OK (Some (mk_msg 5 [0; 0; 3])); OK None].
Proof. vm_compute. reflexivity. Qed.
