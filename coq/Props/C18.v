(* C18 - Fragment handlers are only ever given non-empty slices and meaningful calls. *)
From H264 Require Import Base.Prelude Model.AnnexB Spec.AnnexBSpec
     Proofs.AnnexB_sem Proofs.AnnexB_push Proofs.AnnexB_compose.

(* every call of every sequence of pushes / resets / (re)constructions, from every state:
   all slices non-empty, and a call without slices only with end = true *)
Theorem C18_shape : forall ops st, Forall call_ok (all_calls st ops).
Proof. exact all_calls_ok. Qed.
Print Assumptions C18_shape.

(* reset with no open unit makes no call *)
Theorem C18_reset_idle : forall st, in_unit st = None -> reset st = (AStart, []).
Proof. exact reset_idle. Qed.
Print Assumptions C18_reset_idle.

(* the state is the reader's only memory and reset puts it back to the initial one: everything
   after a reset is what a freshly constructed reader does *)
Theorem C18_reset_fresh : forall st ops, all_calls (fst (reset st)) ops = all_calls AStart ops.
Proof. exact reset_fresh. Qed.
Print Assumptions C18_reset_fresh.

(* every started unit is ended exactly once: the number of end calls of a reset-terminated
   section is the number of units of its segmentation (and C01 says which bytes each got) *)
Theorem C18_ends : forall cs,
  let '(st, k) := pushes AStart cs in
  ends (k ++ snd (reset st)) = length (segment (concat cs)).
Proof. exact ends_count. Qed.
Print Assumptions C18_ends.

Example C18_ex : Forall call_ok (all_calls AStart [APush [0;0;1;5;0]; APush [0]; AReset; AReset; APush [0;0;1]; APush [0;0]; APush [1;7]; AReset]).
Proof. repeat constructor; discriminate. Qed.
