(* C03 - No input can panic, overflow, hang or over-allocate any parsing entry point.
   In the model every operator that aborts a Rust build with overflow checks / debug assertions
   (unchecked + - * <<, slice indexing, unwrap, debug_assert) yields PANIC, and an exhausted fuelled
   loop yields FUEL; `no_abort x` says x is OK or ERR.  Since wrap-around needs an unchecked operation
   to leave its range first, "never PANIC" also gives "same answer with and without overflow checks".
   The theorems quantify over every input and every context reachable by earlier accepted inputs.
   Runtime facets (wall-clock, allocator) are observed by the correspondence check, not proved. *)
From H264 Require Import Base.Prelude Model.BitReader Model.Parser Model.RefNal Model.Source Model.Sps Model.SpsDerived Model.Context Model.Pps
     Model.Slice Model.Sei Model.Avcc Model.AnnexB
     Proofs.C07_proofs Proofs.Wp Proofs.SpsInv Proofs.PpsInv Proofs.SliceInv Proofs.SeiProofs Proofs.C09_proofs
     Proofs.C13_proofs Proofs.C15_proofs Proofs.AnnexB_push Proofs.AnnexB_compose
     Model.Rbsp Proofs.RbspReader Proofs.RbspStream Proofs.SliceConverse Proofs.SizeBounds.
Local Open Scope N_scope.

(* bit reader: ue / se never overflow their u32 / i32 arithmetic *)
Theorem C03_bit_reader : forall nm s, no_abort (read_ue nm s) /\ no_abort (read_se nm s).
Proof. intros; split; [apply read_ue_no_abort|apply read_se_no_abort]. Qed.
Print Assumptions C03_bit_reader.

(* SPS: total on every bit source (complete, incomplete or corrupt NAL alike) *)
Theorem C03_sps : forall s, no_abort (sps_from_bits s).
Proof. intros s. pose proof (sps_from_bits_inv s) as H. destruct (sps_from_bits s); cbn; auto. Qed.
Print Assumptions C03_sps.

(* PPS: total under every context of previously accepted SPS (sizes up to 2^32-1 macroblocks included) *)
Theorem C03_pps : forall c s, ctx_sps_ok c -> no_abort (pps_from_bits c s).
Proof. intros c s Hc. pose proof (pps_from_bits_inv c s Hc) as H. destruct (pps_from_bits c s); cbn; auto. Qed.
Print Assumptions C03_pps.

(* slice header: total under every context of accepted sets; its unbounded loops (list
   modifications, MMCO) are fuelled by S (remaining bits) and never run out *)
Theorem C03_slice : forall c hdr s, ctx_ok c -> no_abort (slice_header_read c hdr s).
Proof.
  intros c hdr s Hc. pose proof (wp_slice_header c hdr s (fun _ _ => True) Hc (fun _ _ _ _ => I)) as H.
  destruct (slice_header_read c hdr s) as [[r s']| | |]; cbn in *; auto.
Qed.
Print Assumptions C03_slice.

(* the context invariants hold for every history of accepted insertions *)
Theorem C03_ctx_reachable : forall c s v, ctx_sps_ok c -> sps_from_bits s = OK v -> ctx_sps_ok (put_seq_param_set c v).
Proof.
  intros c s v Hc Hv id sp Hget. pose proof (sps_from_bits_inv s) as Hi. rewrite Hv in Hi.
  destruct (N.eq_dec id (seq_parameter_set_id v)) as [->|Hne].
  - rewrite Proofs.C19_proofs.sps_lookup_after_put in Hget. injection Hget as <-. exact Hi.
  - rewrite Proofs.C19_proofs.sps_lookup_other in Hget by exact Hne. exact (Hc _ _ Hget).
Qed.
Print Assumptions C03_ctx_reachable.

(* SEI reader and payload parsers *)
Theorem C03_sei : forall r, no_abort (fst (sei_next r)).
Proof. exact sei_next_total. Qed.
Print Assumptions C03_sei.

Theorem C03_sei_payloads : forall c sp payload, ctx_sps_ok c ->
  no_abort (buffering_period_read c payload) /\ no_abort (pic_timing_read sp payload).
Proof. intros c sp payload Hc. split; [apply bp_total; exact Hc|apply pt_total]. Qed.
Print Assumptions C03_sei_payloads.

(* SEI allocation: a payload handed out lies within the data already buffered (never larger) *)
Theorem C03_sei_alloc : forall r t p r', sei_next r = (OK (Some (mk_msg t p)), r') ->
  (length p < length (sbytes (sr_src r)))%nat.
Proof.
  intros r t p r' H. destruct (sei_payload_within r t p r' H) as (pre & Hb & Hne).
  rewrite Hb, !app_length. destruct pre; [contradiction|cbn; lia].
Qed.
Print Assumptions C03_sei_alloc.

(* AVC configuration record: construction, iterators, context creation *)
Theorem C03_avcc : forall data,
  no_abort (try_from data) /\
  (try_from data = OK tt ->
     (exists l, sequence_parameter_sets data = OK l) /\ (exists l, picture_parameter_sets data = OK l) /\
     no_abort (create_context data)).
Proof.
  intros data. split; [apply try_from_no_abort|]. intros H.
  destruct (iterators_after_try_from data H) as [(l1 & H1 & _) (l2 & H2 & _)].
  split; [eauto|]. split; [eauto|]. apply create_context_no_abort. exact H.
Qed.
Print Assumptions C03_avcc.

(* derived-value helpers on accepted SPS *)
Theorem C03_sps_helpers : forall s, inv_sps s ->
  no_abort (pixel_dimensions s) /\ no_abort (pic_size_in_map_units s) /\ no_abort (log2_max_frame_num s).
Proof.
  intros s Hi. pose proof Hi as (_ & _ & _ & _ & _ & _ & _ & _ & Hw & Hh & _).
  pose proof (pixel_dimensions_spec s Hw Hh) as Hp. destruct (helpers_no_abort s Hi) as (_ & _ & H3 & H4).
  split; [destruct (pixel_dimensions s) as [[? ?]| | |]; cbn; auto|]. rewrite H3, H4. split; exact I.
Qed.
Print Assumptions C03_sps_helpers.

(* chunk reader within its preconditions *)
Theorem C03_refnal : forall r n, wf r ->
  no_abort (rdr_read r n) /\ no_abort (rdr_fill_buf r) /\ (forall k, (k <= length (cur r))%nat -> no_abort (rdr_consume r k)).
Proof.
  intros r n Hwf. pose proof (read_spec r n Hwf) as H1. pose proof (fill_buf_spec r Hwf) as H2.
  split; [destruct (rdr_read r n) as [[? ?]| | |]; cbn; auto|].
  split; [destruct (rdr_fill_buf r); cbn; auto|].
  intros k Hk. destruct (consume_spec r k Hwf Hk) as (r' & E & _). rewrite E. exact I.
Qed.
Print Assumptions C03_refnal.

(* RBSP byte reader: any history of fill_buf / consume / read on any chunking and window, and the
   one-shot decoder on any non-empty NAL, end in OK or an io error - never a panic, never out of fuel
   (the fuel bound is the termination measure of the fill loop, so the loop always terminates) *)
Theorem C03_byte_reader : forall head tl c skip mf ops,
  head <> [] -> Forall (fun ch => ch <> []) tl -> 1 <= mf -> skip <= N.of_nat (length (head ++ concat tl)) ->
  no_abort (snd (fst (brun (br_new (rdr_of_nal head tl c) skip mf) ops []))).
Proof.
  intros head tl c skip mf ops H1 H2 H3 H4. pose proof (stream_history head tl c skip mf ops H1 H2 H3 H4) as H.
  destruct (brun (br_new (rdr_of_nal head tl c) skip mf) ops []) as [[d o] r]. cbn [fst snd].
  destruct (Spec.Escape.unescape (payload head tl skip)); destruct H as [_ H]; destruct o as [?|e| |]; cbn; auto.
Qed.
Print Assumptions C03_byte_reader.

Theorem C03_decode_nal : forall nal, N.of_nat (length nal) <= usize_max -> no_abort (decode_nal nal).
Proof.
  intros nal Hl. destruct nal as [|n0 nt]; [vm_compute; exact I|].
  rewrite decode_nal_correct by (discriminate || exact Hl). unfold decode_nal_spec.
  destruct (Spec.Escape.unescape (List.tl (n0 :: nt))) as [p|]; [|exact I].
  destruct (Nat.eqb (length p) (length (List.tl (n0 :: nt)))); exact I.
Qed.
Print Assumptions C03_decode_nal.

(* value-level side of "never requests memory beyond a multiple of the input": every variable-length part of an
   accepted structure has at most as many elements as the input has bits (the input IS the encoding of the structure -
   converse theorems - and every element costs at least one bit) *)
Theorem C03_sizes_bounded :
  (forall s v s', sps_body s = OK (v, s') -> (sps_elems v <= length (bits s))%nat) /\
  (forall c s v s', ctx_sps_ok c -> pps_body c s = OK (v, s') -> (slice_group_elems (slice_groups v) <= length (bits s))%nat) /\
  (forall c hdr s h sid pid s', ctx_ok c -> ctx_keyed c -> slice_header_read c hdr s = OK ((h, sid, pid), s') ->
     (rpl_elems (ref_pic_list_modification h) + drm_elems (sh_dec_ref_pic_marking h) <= length (bits s))%nat).
Proof. split; [exact sps_elems_bounded|split; [exact pps_elems_bounded|exact slice_elems_bounded]]. Qed.
Print Assumptions C03_sizes_bounded.
