(* C13 - SPS-derived values (size, fps, level, profile, codec string) match the standard. *)
From H264 Require Import Base.Prelude Model.Sps Model.SpsDerived Model.ShowSps Spec.Derived
     Proofs.SpsInv Proofs.C13_proofs Proofs.TablesLib Gen.ImplTables Gen.ImplLevel Proofs.Tables.
Local Open Scope N_scope.

(* pixel dimensions: 16*W - CropUnitX*(l+r) by 16*(2-fmo)*H - CropUnitY*(t+b), computed without
   wrap-around; an error exactly when a product exceeds 32 bits or the crop exceeds the picture;
   never a panic (for every SPS the parser can return: ue(v) fields are at most 2^32-2) *)
Theorem C13_dims : forall s,
  pic_width_in_mbs_minus1 s < 4294967295 -> pic_height_in_map_units_minus1 s < 4294967295 ->
  match pixel_dimensions s with
  | OK (w, h) => products_fit s /\ crop_within s /\ Z.of_N w = spec_width s /\ Z.of_N h = spec_height s
  | ERR _ => ~ (products_fit s /\ crop_within s)
  | _ => False
  end.
Proof. exact pixel_dimensions_spec. Qed.
Print Assumptions C13_dims.

(* frame rate: time_scale / (2 * num_units_in_tick) as an exact rational, when timing info is present *)
Theorem C13_fps : forall s,
  fps s = match vui_parameters_ s with
          | Some v => match timing_info_ v with Some t => Some (time_scale t, 2 * num_units_in_tick t) | None => None end
          | None => None
          end.
Proof. exact fps_spec. Qed.
Print Assumptions C13_fps.

(* the size helpers never overflow on an accepted SPS *)
Theorem C13_helpers : forall s, inv_sps s ->
  pic_width_in_mbs s = OK (pic_width_in_mbs_minus1 s + 1) /\
  pic_height_in_map_units s = OK (pic_height_in_map_units_minus1 s + 1) /\
  pic_size_in_map_units s = OK (N.min ((pic_width_in_mbs_minus1 s + 1) * (pic_height_in_map_units_minus1 s + 1)) 4294967295) /\
  log2_max_frame_num s = OK (log2_max_frame_num_minus4 s + 4).
Proof. exact helpers_no_abort. Qed.
Print Assumptions C13_helpers.

(* profile: the implementation's enumeration maps back to the idc it came from (all 256 bytes), and
   the model's names / chroma-info predicate are the implementation's (dumped table) *)
Theorem C13_profile : forall b, b < 256 -> lookup b impl_prof = Some (b, show_profile b, has_chroma_info b, b).
Proof. exact prof_model_eq_impl. Qed.
Print Assumptions C13_profile.

(* level: all 65536 (flags, level_idc) pairs map back to level_idc, and carry the model's names *)
Theorem C13_level :
  forallb (fun f => match lookup f impl_lvl with
                    | Some row => forallb (fun '(l, back, nm) =>
                                    (back =? l) && String.eqb (nth (N.to_nat nm) level_names EmptyString) (show_level f l)) row
                                  && (length row =? 256)%nat
                    | None => false
                    end) (range 256) = true.
Proof. exact lvl_model_eq_impl_sweep. Qed.
Print Assumptions C13_level.

Example C13_ex_1080 :
  pixel_dimensions (mk_sps 100 0 40 0 chroma_info_default 0 PocTypeTwo 1 false 119 67 Frames true (Some (mk_crop 0 0 0 4)) None)
  = OK (1920, 1080).
Proof. vm_compute. reflexivity. Qed.
