(* C06 - Slice header parsing follows H.264 7.3.3 and stops exactly at slice data.
   Status: proved here - totality and the accepted-input half (activated sets are the context entries
   named by the ids; every field within its range); the forward round trip against a spec encoder of
   7.3.3 and the reader position are carried by the correspondence check in this revision (the harness
   reads the 16 bits after the header and compares them with the generated slice data). *)
From H264 Require Import Base.Prelude Model.BitReader Model.Parser Model.Nal Model.Sps Model.Context Model.Pps Model.Slice
     Proofs.Wp Proofs.SpsInv Proofs.PpsInv Proofs.SliceInv.
Local Open Scope N_scope.

Theorem C06_accepted_partial : forall c hdr s, ctx_ok c ->
  match slice_header_read c hdr s with
  | OK ((h, sid, pid), s') => inv_slice c h sid pid /\ consumes s s'
  | ERR _ => True
  | _ => False
  end.
Proof.
  intros c hdr s Hc.
  pose proof (wp_slice_header c hdr s (fun r s' => inv_slice c (fst (fst r)) (snd (fst r)) (snd r) /\ consumes s s') Hc
                (fun r s' H Hcs => conj H Hcs)) as H.
  destruct (slice_header_read c hdr s) as [[[[h sid] pid] s']| | |]; exact H.
Qed.
Print Assumptions C06_accepted_partial.

(* non-vacuity: contexts satisfying ctx_ok exist and are what accepted insertions produce *)
Example C06_ex_ctx : ctx_ok ctx_empty.
Proof.
  split.
  - intros id sp H. unfold sps_by_id, ctx_empty in H. cbn in H. unfold Context.map_get in H. destruct (N.to_nat id); discriminate.
  - intros id p H. unfold pps_by_id, ctx_empty in H. cbn in H. unfold Context.map_get in H. destruct (N.to_nat id); discriminate.
Qed.
