(* C06 - Slice header parsing follows H.264 7.3.3 and stops exactly at slice data.
   enc_slice_header (Spec/SyntaxSlice.v) is the syntax table of 7.3.3 / 7.3.3.1-3 written as an encoder
   relative to the NAL header and the activated PPS / SPS; wf_slice states, element by element, the
   standard's presence condition (on slice type, NAL type, nal_ref_idc and the SPS/PPS flags) and the
   representable ranges.  Proved: the forward round trip with the reader left on the first bit of slice
   data, for every context of accepted parameter sets; totality; the accepted-input half. *)
From H264 Require Import Base.Prelude Base.Bits Model.BitReader Model.Parser Model.Nal Model.Sps Model.Context Model.Pps Model.Slice
     Spec.SyntaxSps Spec.SyntaxSlice Proofs.Wp Proofs.SpsInv Proofs.PpsInv Proofs.SliceInv Proofs.C14_proofs Proofs.SliceRoundtrip Proofs.SliceConverse.
Local Open Scope N_scope.

(* Every conforming slice header (B slices with an explicit weight table excepted: wf_slice demands
   family <> B where the table is present), followed by slice data `rest` on any kind of source, parses to
   exactly the encoded structure and the ids of the activated sets, and the reader is left on `rest`.
   Slice data must exist (a 1 bit after its first bit - the rbsp stop bit at the latest): the library
   refuses a header with nothing after it. *)
Theorem C06_roundtrip : forall c hdr pp sp h ab em rest tl,
  ctx_ok c -> wf_slice c hdr pp sp h ab -> any_one (List.tl rest) = true ->
  slice_header_read c hdr (mk_src (enc_slice_header hdr pp sp h ab em ++ rest) tl)
  = OK ((h, pps_seq_parameter_set_id pp, pic_parameter_set_id pp), mk_src rest tl).
Proof. exact slice_header_roundtrip. Qed.
Print Assumptions C06_roundtrip.

(* totality and the accepted-input half: for every input, never an abort; an accepted header names
   context entries, is within its ranges, and was consumed front to back *)
Theorem C06_accepted : forall c hdr s, ctx_ok c ->
  match slice_header_read c hdr s with
  | OK ((h, sid, pid), s') => inv_slice c h sid pid /\ consumes s s'
  | ERR _ => True
  | _ => False
  end.
Proof.
  intros c hdr s Hc.
  pose proof (wp_slice_header c hdr s (fun r s' => inv_slice c (fst (fst r)) (snd (fst r)) (snd r) /\ consumes s s') Hc
                (fun r s' H Hcs => conj H Hcs)) as H.
  destruct (slice_header_read c hdr s) as [[[[h sid] pid] s']| | |]; exact H.
Qed.
Print Assumptions C06_accepted.

(* converse: every accepted header is the encoding of the returned structure relative to the PPS / SPS the returned
   ids name in the context (for some deblocking offsets and some coding of empty modification lists - what the
   structure does not keep), followed by the slice data the reader stopped on.  ctx_keyed: every PPS is stored
   under its own id, an invariant of Context::put_pic_param_set (C06_keyed) *)
Theorem C06_converse : forall c hdr s h sid pid s', ctx_ok c -> ctx_keyed c ->
  slice_header_read c hdr s = OK ((h, sid, pid), s') ->
  exists pp sp ab em, pps_by_id c pid = Some pp /\ sps_by_id c sid = Some sp /\ pps_seq_parameter_set_id pp = sid /\
    bits s = enc_slice_header hdr pp sp h ab em ++ bits s' /\ tail s' = tail s.
Proof. exact slice_header_converse. Qed.
Print Assumptions C06_converse.

Theorem C06_keyed : ctx_keyed ctx_empty /\
  (forall c sp, ctx_keyed c -> ctx_keyed (put_seq_param_set c sp)) /\ (forall c p, ctx_keyed c -> ctx_keyed (put_pic_param_set c p)).
Proof. split; [exact ctx_keyed_empty|split; [exact ctx_keyed_put_sps|exact ctx_keyed_put_pps]]. Qed.
Print Assumptions C06_keyed.

(* non-vacuity: contexts satisfying ctx_ok exist *)
Example C06_ex_ctx : ctx_ok ctx_empty.
Proof.
  split.
  - intros id sp H. unfold sps_by_id, ctx_empty in H. cbn in H. unfold Context.map_get in H. destruct (N.to_nat id); discriminate.
  - intros id p H. unfold pps_by_id, ctx_empty in H. cbn in H. unfold Context.map_get in H. destruct (N.to_nat id); discriminate.
Qed.

(* non-vacuity of wf_slice and of the round trip: an SP slice (type 8) in a non-IDR reference NAL, field
   coding with a bottom field, POC type 0, redundant count, reference-count override, list modifications,
   an explicit weight table with one chroma pair, adaptive marking, CABAC init, QS delta, deblocking
   offsets; the 6 bits of slice data follow *)
Example C06_ex :
  let sp := mk_sps 100 0 40 0 (mk_chroma_info YUV420 false 0 0 false None) 3 (PocTypeZero 2) 4 false 19 8 (Fields false) true None None in
  let pp := mk_pps 4 0 true true None 0 0 true 0 0%Z (-3)%Z 0%Z true false true None in
  let c := put_pic_param_set (put_seq_param_set ctx_empty sp) pp in
  let t := mk_pwt 5 (Some 4) [Some (mk_pw 3 (-1)); None] [[mk_pw 1 1; mk_pw (-2) 0]; []] in
  let h := mk_sh 17 (mk_st FamSP true) None 77 FpBottom None (Some (PlFrame 33)) (Some 1) None (Some (NraP 1))
                 (RplP [ModSubtract 2; ModLongTermRef 0]) (Some t)
                 (Some (DrAdaptive [MmShortTermUnused 1; MmAllUnused; MmShortTermUsedForLongTerm 2 3])) (Some 2) (-4)%Z (Some true) (Some 30) 2 in
  let hdr := 65 in
  let rest := [true; false; true; true; false; false] in
  wf_slice c hdr pp sp h (3, -2)%Z /\
  slice_header_read c hdr (mk_src (enc_slice_header hdr pp sp h (3, -2)%Z (true, false) ++ rest) TEof) = OK ((h, 0, 4), mk_src rest TEof).
Proof.
  cbv zeta. split; [|vm_compute; reflexivity].
  unfold wf_slice. cbv zeta.
  repeat match goal with |- _ /\ _ => apply conj end;
    cbn -[N.lt N.le Z.le Z.lt N.pow]; try reflexivity; try discriminate; try (unfold u32v; lia).
  - exists 33. split; [reflexivity|]. change (2 ^ (2 + 4)) with 64. lia.
  - exists 1. split; [reflexivity|unfold u32v; lia].
  - repeat constructor; cbn [mod_val]; unfold u32v; lia.
  - split; [reflexivity|]. eexists. split; [reflexivity|].
    unfold wf_pwt, wf_pw, u32v, s32v. cbn -[N.lt N.le Z.le Z.lt].
    repeat match goal with |- _ /\ _ => apply conj end; try lia; try reflexivity.
    + exists 4. split; [reflexivity|lia].
    + constructor; [right; exists (mk_pw 1 1), (mk_pw (-2) 0); cbn -[Z.le]; repeat split; lia|].
      constructor; [left; reflexivity|constructor].
    + repeat constructor; cbn -[Z.le]; lia.
  - change (nal_ref_idc 65 =? 0) with false. cbv iota. eexists. split; [reflexivity|].
    cbn [wf_drm]. split; [discriminate|]. repeat constructor; cbn [wf_mmco]; unfold u32v; lia.
  - exists 2. split; [reflexivity|unfold u32v; lia].
  - exists true. reflexivity.
  - exists 30. split; [reflexivity|lia].
  - split; [lia|]. intros _. unfold s32v. cbn [fst snd]. lia.
Qed.
