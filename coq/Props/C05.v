(* C05 - PPS parsing recovers exactly the values encoded per H.264 7.3.2.2.
   Status: proved here - the accepted-input half (every accepted PPS is within the ranges, refers to a
   context SPS, has the prescribed list counts) and the exact detection of the optional tail; the
   forward round trip against a spec encoder is carried by the correspondence check in this revision
   (see DESIGN.md): theorem C05_roundtrip is not yet stated. *)
From H264 Require Import Base.Prelude Model.BitReader Model.Parser Model.Sps Model.Context Model.Pps Spec.SyntaxSps
     Proofs.Wp Proofs.SpsInv Proofs.PpsInv Proofs.C05_tail.
Local Open Scope N_scope.

(* the optional tail (transform_8x8_mode_flag ...) is detected exactly when data precedes the
   rbsp trailing bits *)
Theorem C05_tail_exact : forall nm ext k,
  (ext <> [] -> has_more_rbsp_data nm (mk_src (ext ++ trailing_bits k) TEof) = OK (true, mk_src (ext ++ trailing_bits k) TEof)) /\
  has_more_rbsp_data nm (mk_src (trailing_bits k) TEof) = OK (false, mk_src (trailing_bits k) TEof).
Proof. intros nm ext k. split; [intros H; apply has_more_before_trailing; exact H|apply has_more_at_trailing]. Qed.
Print Assumptions C05_tail_exact.

(* accepted PPS (any input, any context of accepted SPS): ids in range, the referenced SPS is in the
   context, <= 8 slice groups with the prescribed shapes (type 0: 2..8 run lengths; type 2: n
   rectangles with top_left <= bottom_right; type 6: ids < 8), ref counts <= 32, QP/QS/chroma offsets
   in range, 6 + (2|6) picture scaling lists by transform flag and chroma format *)
Theorem C05_accepted_partial : forall c s, ctx_sps_ok c ->
  match pps_from_bits c s with OK p => inv_pps c p | ERR _ => True | _ => False end.
Proof. exact pps_from_bits_inv. Qed.
Print Assumptions C05_accepted_partial.

(* nothing is skipped backwards or read twice: the structure parser consumes a prefix of its input *)
Theorem C05_consumes_partial : forall c s v s', ctx_sps_ok c -> pps_body c s = OK (v, s') -> inv_pps c v /\ consumes s s'.
Proof.
  intros c s v s' Hc H. pose proof (wp_pps_body c s (fun v s' => inv_pps c v /\ consumes s s') Hc (fun v s' Hi Hcs => conj Hi Hcs)) as Hw.
  rewrite H in Hw. exact Hw.
Qed.
Print Assumptions C05_consumes_partial.
