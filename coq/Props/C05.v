(* C05 - PPS parsing recovers exactly the values encoded per H.264 7.3.2.2.
   enc_pps (Spec/SyntaxPps.v) is the syntax table of 7.3.2.2 written as an encoder; wf_pps the ranges the
   standard allows (7.4.2.2), relative to the SPS the PPS refers to in the context.  Proved: the forward
   round trip for every conforming PPS over every context of accepted SPS (all seven slice-group map
   types, the optional tail with its scaling lists), the exact detection of the optional tail, and the
   accepted-input half (every accepted PPS is within the ranges and was consumed front to back). *)
From H264 Require Import Base.Prelude Base.Bits Model.BitReader Model.Parser Model.Sps Model.Context Model.Pps Spec.SyntaxSps Spec.SyntaxPps
     Proofs.Wp Proofs.SpsInv Proofs.PpsInv Proofs.C05_tail Proofs.PpsRoundtrip Proofs.PpsConverse.
Local Open Scope N_scope.

(* every conforming PPS, encoded and followed by rbsp trailing bits (with any number of trailing zero
   bits), parses - in any context whose SPS were accepted by the SPS parser - to a structure in which
   every field equals the encoded value *)
Theorem C05_roundtrip : forall c p plists k, ctx_sps_ok c -> wf_pps c p plists ->
  pps_from_bits c (mk_src (enc_pps p plists ++ trailing_bits k) TEof) = OK p.
Proof. exact pps_roundtrip. Qed.
Print Assumptions C05_roundtrip.

(* ... and the structure parser stops exactly at the trailing bits *)
Theorem C05_body : forall c p plists k, ctx_sps_ok c -> wf_pps c p plists ->
  pps_body c (mk_src (enc_pps p plists ++ trailing_bits k) TEof) = OK (p, mk_src (trailing_bits k) TEof).
Proof. exact pps_body_roundtrip. Qed.
Print Assumptions C05_body.

(* the optional tail (transform_8x8_mode_flag ...) is detected exactly when data precedes the
   rbsp trailing bits *)
Theorem C05_tail_exact : forall nm ext k,
  (ext <> [] -> has_more_rbsp_data nm (mk_src (ext ++ trailing_bits k) TEof) = OK (true, mk_src (ext ++ trailing_bits k) TEof)) /\
  has_more_rbsp_data nm (mk_src (trailing_bits k) TEof) = OK (false, mk_src (trailing_bits k) TEof).
Proof. intros nm ext k. split; [intros H; apply has_more_before_trailing; exact H|apply has_more_at_trailing]. Qed.
Print Assumptions C05_tail_exact.

(* accepted PPS (any input, any context of accepted SPS): ids in range, the referenced SPS is in the
   context, <= 8 slice groups with the prescribed shapes (type 0: 2..8 run lengths; type 2: n
   rectangles with top_left <= bottom_right; type 6: ids < 8), ref counts <= 32, QP/QS/chroma offsets
   in range, 6 + (2|6) picture scaling lists by transform flag and chroma format *)
Theorem C05_accepted : forall c s, ctx_sps_ok c ->
  match pps_from_bits c s with OK p => inv_pps c p | ERR _ => True | _ => False end.
Proof. exact pps_from_bits_inv. Qed.
Print Assumptions C05_accepted.

(* nothing is skipped backwards or read twice: the structure parser consumes a prefix of its input *)
Theorem C05_consumes : forall c s v s', ctx_sps_ok c -> pps_body c s = OK (v, s') -> inv_pps c v /\ consumes s s'.
Proof.
  intros c s v s' Hc H. pose proof (wp_pps_body c s (fun v s' => inv_pps c v /\ consumes s s') Hc (fun v s' Hi Hcs => conj Hi Hcs)) as Hw.
  rewrite H in Hw. exact Hw.
Qed.
Print Assumptions C05_consumes.

(* converse: every bit string the structure parser accepts is the encoding of the structure it returns (for some
   coded picture scaling-list deltas), followed by what it left unread *)
Theorem C05_converse : forall c s v s', ctx_sps_ok c -> pps_body c s = OK (v, s') ->
  exists plists, bits s = enc_pps v plists ++ bits s' /\ tail s' = tail s.
Proof. intros c s v s' Hc H. exact (pps_body_converse c s v s' Hc H). Qed.
Print Assumptions C05_converse.

(* non-vacuity: a 4x3-macroblock High 4:4:4 SPS in the context; a PPS with an explicit slice-group map
   (type 6, 3 groups, 12 ids), the optional tail, and twelve picture scaling lists one of which is coded *)
Example C05_ex :
  let sp := mk_sps 244 0 40 3 (mk_chroma_info YUV444 false 2 2 false None) 4 PocTypeTwo 4 false 3 2 Frames true None None in
  let c := put_seq_param_set ctx_empty sp in
  let m := mk_psm [SlUseDefault; SlNotPresent; SlNotPresent; SlNotPresent; SlNotPresent; SlNotPresent]
                  (Some [SlNotPresent; SlNotPresent; SlNotPresent; SlNotPresent; SlNotPresent; SlNotPresent]) in
  let p := mk_pps 7 3 true false (Some (SgExplicit 2 [0; 1; 2; 2; 1; 0; 0; 0; 1; 1; 2; 2])) 3 0 true 2 (-30)%Z 4%Z (-12)%Z true false true
                  (Some (mk_ext true (Some m) 12%Z)) in
  let plists := Some [Some [(-8)%Z]; None; None; None; None; None; None; None; None; None; None; None] in
  wf_pps c p plists /\
  pps_from_bits c (mk_src (enc_pps p plists ++ trailing_bits 5) TEof) = OK p.
Proof.
  cbv zeta. split; [|vm_compute; reflexivity].
  unfold wf_pps. cbn [pic_parameter_set_id pps_seq_parameter_set_id slice_groups num_ref_idx_l0_default_active_minus1
    num_ref_idx_l1_default_active_minus1 weighted_bipred_idc pic_init_qp_minus26 pic_init_qs_minus26 chroma_qp_index_offset extension].
  split; [lia|]. split; [lia|]. eexists. split; [vm_compute; reflexivity|].
  cbn [chroma_info_ bit_depth_luma_minus8 wf_slice_group wf_pps_ext transform_8x8_mode_flag pic_scaling_matrix_
       second_chroma_qp_index_offset psm4x4 psm8x8 length].
  repeat match goal with |- _ /\ _ => apply conj end; try lia; try (vm_compute; reflexivity); try discriminate.
  - repeat constructor; lia.
  - repeat constructor; lia.
Qed.
