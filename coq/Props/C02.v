(* C02 - RBSP extraction removes exactly the emulation-prevention bytes, for any chunking.
   Status: proved here - the specification-level law (decoding the escaped form of any payload gives
   the payload back).  The refinement "streaming reader = unescape for every chunking, window and
   operation order" (DESIGN.md Appendix A.2) is not yet a theorem in this revision; it is carried by
   the exhaustive small-scope correspondence (all strings <= 6 over {00,01,03,04} x all partitions x
   read styles x skips x fill windows 1..4, window-boundary cases, random escaped payloads) with an
   independent reference unescape as oracle. *)
From H264 Require Import Base.Prelude Spec.Escape Proofs.EscapeProofs Model.RefNal Model.Rbsp.
Local Open Scope N_scope.

Theorem C02_escape_roundtrip : forall p, unescape (escape p) = Some p.
Proof. exact unescape_escape. Qed.
Print Assumptions C02_escape_roundtrip.

(* forbidden sequences are refused by the specification function *)
Theorem C02_forbidden : forall (x : N) (r : list N),
  unescape [0; 0; 0] = None /\ (3 < x -> unescape (0 :: 0 :: 3 :: x :: r) = None) /\ unescape [0; 0; 3] = Some [0; 0].
Proof.
  intros x r. split; [reflexivity|]. split; [|reflexivity].
  intros Hx. rewrite unescape_003. destruct (N.ltb_spec 3 x); [reflexivity|lia].
Qed.
Print Assumptions C02_forbidden.

(* the model's one-shot decoder on the documentation examples of rbsp.rs *)
Example C02_ex_decode_nal :
  decode_nal [104; 18; 52; 0; 0; 3; 0; 134] = OK (Owned [18; 52; 0; 0; 0; 134]) /\
  decode_nal [104; 232; 67; 143; 19; 33; 48] = OK (Borrowed [232; 67; 143; 19; 33; 48]) /\
  decode_nal [104; 18; 52; 0; 0; 0; 134] = ERR InvalidData /\
  decode_nal [] = OK (Owned []).
Proof. vm_compute. repeat split. Qed.
