(* C02 - RBSP extraction removes exactly the emulation-prevention bytes, for any chunking.
   The streaming reader model (Model/Rbsp.v: ByteReader over a chunked RefNalReader, examination window
   max_fill, header skip) is proved to refine the specification function Spec/Escape.unescape for every
   input, chunking, window, skip and history of read / fill_buf / consume calls; decode_nal is proved equal
   to its specification including the Cow variant.  The model is tied to src/rbsp.rs by the correspondence
   run (vlib/props/C02.py). *)
From H264 Require Import Base.Prelude Spec.Escape Proofs.EscapeProofs Model.RefNal Model.Rbsp
  Proofs.C15_proofs Proofs.RbspSem Proofs.RbspScan Proofs.RbspReader Proofs.RbspStream.
Local Open Scope N_scope.

(* decoding the escaped form of any payload returns that payload *)
Theorem C02_escape_roundtrip : forall p, unescape (escape p) = Some p.
Proof. exact unescape_escape. Qed.
Print Assumptions C02_escape_roundtrip.

(* forbidden sequences are refused by the specification function *)
Theorem C02_forbidden : forall (x : N) (r : list N),
  unescape [0; 0; 0] = None /\ (3 < x -> unescape (0 :: 0 :: 3 :: x :: r) = None) /\ unescape [0; 0; 3] = Some [0; 0].
Proof.
  intros x r. split; [reflexivity|]. split; [|reflexivity].
  intros Hx. rewrite unescape_003. destruct (N.ltb_spec 3 x); [reflexivity|lia].
Qed.
Print Assumptions C02_forbidden.

(* Every history of fill_buf / consume(k) / read(n) calls, on a reader over any chunking (head :: tl, every
   chunk non-empty), any examination window mf >= 1 and any header skip within the input: the bytes handed
   over are a prefix of unescape(payload); the only errors are WouldBlock (incomplete NAL, everything
   delivered) and InvalidData (payload not clean; everything delivered came from a clean prefix); the
   model never panics nor runs out of fuel. *)
Theorem C02_stream_history : forall head tl c skip mf ops,
  head <> [] -> Forall (fun ch => ch <> []) tl -> 1 <= mf -> skip <= N.of_nat (length (head ++ concat tl)) ->
  let '(d, o, _) := brun (br_new (rdr_of_nal head tl c) skip mf) ops [] in
  match unescape (payload head tl skip) with
  | Some p => is_prefix d p /\
      match o with OK _ => True | ERR WouldBlock => c = false /\ d = p | _ => False end
  | None => from_clean_prefix d (payload head tl skip) /\
      match o with OK _ => True | ERR InvalidData => True | _ => False end
  end.
Proof. exact stream_history. Qed.
Print Assumptions C02_stream_history.

(* Reading to the end (read_to_end, and every bit reader layered on the ByteReader) yields exactly
   unescape(payload), whatever the chunking and window. *)
Theorem C02_stream_drain : forall head tl c skip mf,
  head <> [] -> Forall (fun ch => ch <> []) tl -> 1 <= mf -> skip <= N.of_nat (length (head ++ concat tl)) ->
  let '(d, t, _) := br_drain (br_new (rdr_of_nal head tl c) skip mf) in
  match unescape (payload head tl skip) with
  | Some p => d = p /\ t = (if c then TermEof else TermErr WouldBlock)
  | None => from_clean_prefix d (payload head tl skip) /\ t = TermErr InvalidData
  end.
Proof. exact stream_drain. Qed.
Print Assumptions C02_stream_drain.

(* two chunkings / windows of the same bytes give the same RBSP *)
Theorem C02_paths_agree : forall head1 tl1 head2 tl2 c skip mf1 mf2 p,
  head1 <> [] -> Forall (fun ch => ch <> []) tl1 -> head2 <> [] -> Forall (fun ch => ch <> []) tl2 ->
  1 <= mf1 -> 1 <= mf2 -> head1 ++ concat tl1 = head2 ++ concat tl2 ->
  skip <= N.of_nat (length (head1 ++ concat tl1)) ->
  unescape (payload head1 tl1 skip) = Some p ->
  fst (br_drain (br_new (rdr_of_nal head1 tl1 c) skip mf1)) = fst (br_drain (br_new (rdr_of_nal head2 tl2 c) skip mf2)) /\
  fst (fst (br_drain (br_new (rdr_of_nal head1 tl1 c) skip mf1))) = p.
Proof.
  intros head1 tl1 head2 tl2 c skip mf1 mf2 p H1 T1 H2 T2 M1 M2 E S U.
  pose proof (stream_drain head1 tl1 c skip mf1 H1 T1 M1 S) as D1.
  assert (S2 : skip <= N.of_nat (length (head2 ++ concat tl2))) by (rewrite <- E; exact S).
  pose proof (stream_drain head2 tl2 c skip mf2 H2 T2 M2 S2) as D2.
  assert (P2 : payload head2 tl2 skip = payload head1 tl1 skip) by (unfold payload; rewrite E; reflexivity).
  rewrite P2 in D2. rewrite U in D1, D2.
  destruct (br_drain (br_new (rdr_of_nal head1 tl1 c) skip mf1)) as [[d1 t1] r1].
  destruct (br_drain (br_new (rdr_of_nal head2 tl2 c) skip mf2)) as [[d2 t2] r2].
  destruct D1 as [-> ->]. destruct D2 as [-> ->]. split; reflexivity.
Qed.
Print Assumptions C02_paths_agree.

(* the one-shot decoder: unescape of the bytes after the header; borrowed exactly when no byte was removed *)
Theorem C02_decode_nal : forall nal, nal <> [] -> N.of_nat (length nal) <= usize_max ->
  decode_nal nal =
  match unescape (tl nal) with
  | None => ERR InvalidData
  | Some p => if Nat.eqb (length p) (length (tl nal)) then OK (Borrowed (tl nal)) else OK (Owned p)
  end.
Proof. exact decode_nal_correct. Qed.
Print Assumptions C02_decode_nal.

(* ... and "no byte removed" is the same as "output equals input" *)
Theorem C02_borrow_iff_unchanged : forall l p, unescape l = Some p ->
  (length p <= length l)%nat /\ (length p = length l -> p = l).
Proof. intros l p H. split; [exact (unescape_length l p H)|exact (unescape_same_length l p H)]. Qed.
Print Assumptions C02_borrow_iff_unchanged.

(* non-vacuity and the documentation examples of rbsp.rs *)
Example C02_ex_decode_nal :
  decode_nal [104; 18; 52; 0; 0; 3; 0; 134] = OK (Owned [18; 52; 0; 0; 0; 134]) /\
  decode_nal [104; 232; 67; 143; 19; 33; 48] = OK (Borrowed [232; 67; 143; 19; 33; 48]) /\
  decode_nal [104; 18; 52; 0; 0; 0; 134] = ERR InvalidData /\
  decode_nal [] = OK (Owned []).
Proof. vm_compute. repeat split. Qed.

Example C02_ex_history :
  brun (br_new (rdr_of_nal [104; 18; 0] [[0]; [3; 0; 134]] true) 1 2) [BRead 1; BFill; BConsume 1; BRead 9; BRead 9; BRead 9; BRead 9] []
  = ([18; 0; 0; 0; 134], OK tt, mk_br (mk_rdr [] [] true) Start 0 2).
Proof. vm_compute. reflexivity. Qed.
