(* C12 - End to end: a chunked Annex B stream parses like its NALs parsed in isolation.
   The end-to-end statement is a composition; the links that are theorems are listed here, the glue
   that is only executed (the pipeline model of Model/Driver.v against AnnexBReader::accumulate with a
   parsing handler, on generated NAL sequences x partitions x policies, also via an AVC configuration
   record) is the correspondence check.  Not yet a theorem: segment (annexb_encode nals) = nals. *)
From H264 Require Import Base.Prelude Model.AnnexB Model.Accum Spec.AnnexBSpec Spec.AccumSpec Spec.Escape
     Proofs.AnnexB_sem Proofs.AnnexB_compose Proofs.C08_proofs Proofs.EscapeProofs.
Local Open Scope N_scope.

(* link 1 (C01): whatever the push partition, the units delivered after the final reset are the
   start-code segmentation of the stream, each ended once *)
Theorem C12_framing : forall cs,
  let '(st, k) := pushes AStart cs in
  feed_calls (k ++ snd (reset st)) ([], []) = (segment (concat cs), []).
Proof. exact pushes_reset_segment. Qed.
Print Assumptions C12_framing.

(* link 2 (C08): the accumulator hands a handler that always answers Buffer exactly one complete
   invocation per non-empty NAL, carrying the whole NAL, and nothing carries over *)
Theorem C12_whole_nal_once : forall frs sofar,
  ends_here frs = true -> sofar ++ nal_bytes frs <> [] ->
  exists pre, spec_run sofar false [] frs =
              pre ++ (sofar ++ nal_bytes frs, true) :: spec_run [] false [] (after_end frs)
              /\ Forall (fun v => snd v = false) pre.
Proof. exact buffer_only_one_complete. Qed.
Print Assumptions C12_whole_nal_once.

(* link 3: emulation prevention makes NAL payloads free of start codes (no 00 00 00/01/02 inside), so
   the framing layer cannot cut a NAL, and removing it gives the payload back *)
Theorem C12_escape_clean : forall p, has_sc (escape p) = false /\ unescape (escape p) = Some p.
Proof. intros p. split; [apply escape_no_startcode|apply unescape_escape]. Qed.
Print Assumptions C12_escape_clean.
