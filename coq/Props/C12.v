(* C12 - End to end: a chunked Annex B stream parses like its NALs parsed in isolation.
   The end-to-end statement is the composition of the layers; here it is a theorem about the models:
   C12_delivery composes framing (C01), accumulation (C08) and the segmentation of a serialised stream
   (segment_encode); C12_parse_view composes the chunk reader (C15) and RBSP reader (C02) under every
   parser; C12_avcc is the configuration-record route (C09).  The pipeline model of Model/Driver.v (the
   same composition with a parsing handler and a running context) is executed against
   AnnexBReader::accumulate by the correspondence check on generated NAL sequences x partitions x policies. *)
From H264 Require Import Base.Prelude Base.Bits Model.AnnexB Model.Accum Model.Source Model.Sei Model.Avcc Model.Context Model.Pps Model.Driver
     Spec.AnnexBSpec Spec.AccumSpec Spec.Escape Spec.AvccSpec
     Proofs.AnnexB_sem Proofs.AnnexB_compose Proofs.C08_proofs Proofs.C09_proofs Proofs.EscapeProofs Proofs.C12_frame Proofs.C12_compose Proofs.C12_pipeline Proofs.C12_stream Proofs.C09_proofs Proofs.NalLevel
     Model.BitReader Model.Sps Model.Nal Model.Slice Model.Show Model.ShowSps Model.ShowPps Model.ShowSlice Spec.SyntaxSps Spec.SyntaxPps Spec.SyntaxSlice Proofs.SpsInv Proofs.PpsInv Proofs.SliceInv Proofs.C14_proofs.
Local Open Scope N_scope.

(* For any sequence of NAL units (non-empty, last byte non-zero, free of 00 00 0x with x <= 2 - which is
   what a non-zero header byte followed by an escaped RBSP gives, C12_units_ok), serialised with any
   number of leading zero bytes before each 3-byte start code (one such zero = the 4-byte start code) and
   no or >= 3 trailing zero bytes, pushed in ARBITRARY pieces and followed by the end of the stream: the
   accumulator shows a handler that always answers Buffer exactly these NAL units as complete invocations -
   each once, in order, byte-identical. *)
Theorem C12_delivery : forall units t cs,
  Forall (fun u => unit_ok (snd u)) units -> (t = 0%nat \/ 3 <= t)%nat ->
  concat cs = annexb_encode units t ->
  let '(st, k) := pushes AStart cs in
  map inv_bytes (filter inv_complete (run_fragments acc_init [] (frs_of (k ++ snd (reset st))))) = map snd units.
Proof. exact delivery. Qed.
Print Assumptions C12_delivery.

Theorem C12_units_ok : forall hdr p, hdr <> 0 -> p <> [] -> last p 1 <> 0 -> unit_ok (hdr :: escape p).
Proof. exact unit_ok_escaped. Qed.
Print Assumptions C12_units_ok.

(* the segmentation link on its own *)
Theorem C12_segment_encode : forall units t,
  Forall (fun u => unit_ok (snd u)) units -> (t = 0%nat \/ 3 <= t)%nat ->
  segment (annexb_encode units t) = map snd units.
Proof. exact segment_encode. Qed.
Print Assumptions C12_segment_encode.

(* Inside the handler every parser reads the NAL through RefNal chunks (always non-empty,
   C12_chunks_nonempty); for a NAL free of forbidden sequences the bit source and the byte source it gets
   are those of the same NAL held in one contiguous buffer - so SPS, PPS, SEI and slice-header parsing
   give the same result as on the NAL alone *)
Theorem C12_parse_view : forall head tl p,
  head <> [] -> Forall (fun ch => ch <> []) tl ->
  unescape (skipn 1 (head ++ concat tl)) = Some p ->
  bitsrc_of_source (SrcNal true (head :: tl)) = nal_bitsrc (head ++ concat tl) /\
  bytesrc_of_source (SrcNal true (head :: tl)) = bytesrc_of_source (SrcNal true [head ++ concat tl]).
Proof. exact parse_view_chunk_independent. Qed.
Print Assumptions C12_parse_view.

Theorem C12_chunks_nonempty : forall a pol bufs e,
  Forall (fun b => b <> []) bufs ->
  Forall (fun i => Forall (fun ch => ch <> []) (inv_chunks i)) (snd (nal_fragment a pol bufs e)).
Proof. exact nal_fragment_chunks_ok. Qed.
Print Assumptions C12_chunks_nonempty.

(* the same parameter sets through an AVC configuration record: the context is the one obtained by
   parsing each listed NAL alone (SPS first, in order) *)
Theorem C12_avcc : forall h spss ppss trailing,
  (length spss <= 31)%nat -> (length ppss <= 255)%nat -> ah_reserved3 h <= 7 ->
  Forall nal_len_ok spss -> Forall nal_len_ok ppss -> Forall (nal_like 7) spss -> Forall (nal_like 8) ppss ->
  create_context (build_avcc h spss ppss trailing) =
  obind (ctx_of_sps (map ItOk spss) ctx_empty) (fun c => ctx_of_pps (map ItOk ppss) c).
Proof. exact avcc_context. Qed.
Print Assumptions C12_avcc.

(* from the structure to the NAL unit and back through every layer: a parameter set / slice header encoded per the
   syntax tables, completed to whole bytes, escaped (7.4.1), prefixed by the NAL header byte and handed to the parser as
   a RefNal in ANY chunking parses to the structure (composition of C15, C02 and C04 / C05 / C06) *)
Theorem C12_sps_nal : forall x lists k hdr head tl, wf_sps x lists ->
  (8 | N.of_nat (length (enc_sps x lists ++ trailing_bits k))) ->
  head <> [] -> Forall (fun ch => ch <> []) tl -> head ++ concat tl = nal_of_bits hdr (enc_sps x lists ++ trailing_bits k) ->
  sps_from_bits (bitsrc_of_source (SrcNal true (head :: tl))) = OK x.
Proof. exact sps_nal_roundtrip. Qed.
Print Assumptions C12_sps_nal.

Theorem C12_pps_nal : forall c p plists k hdr head tl, ctx_sps_ok c -> wf_pps c p plists ->
  (8 | N.of_nat (length (enc_pps p plists ++ trailing_bits k))) ->
  head <> [] -> Forall (fun ch => ch <> []) tl -> head ++ concat tl = nal_of_bits hdr (enc_pps p plists ++ trailing_bits k) ->
  pps_from_bits c (bitsrc_of_source (SrcNal true (head :: tl))) = OK p.
Proof. exact pps_nal_roundtrip. Qed.
Print Assumptions C12_pps_nal.

Theorem C12_slice_nal : forall c hdr pp sp h ab em data head tl, ctx_ok c -> wf_slice c hdr pp sp h ab ->
  any_one (List.tl data) = true ->
  (8 | N.of_nat (length (enc_slice_header hdr pp sp h ab em ++ data))) ->
  head <> [] -> Forall (fun ch => ch <> []) tl -> head ++ concat tl = nal_of_bits hdr (enc_slice_header hdr pp sp h ab em ++ data) ->
  slice_header_read c hdr (bitsrc_of_source (SrcNal true (head :: tl)))
  = OK ((h, pps_seq_parameter_set_id pp, pic_parameter_set_id pp), mk_src data TEof).
Proof. exact slice_nal_roundtrip. Qed.
Print Assumptions C12_slice_nal.

(* the links, as before *)
Theorem C12_framing : forall cs,
  let '(st, k) := pushes AStart cs in
  feed_calls (k ++ snd (reset st)) ([], []) = (segment (concat cs), []).
Proof. exact pushes_reset_segment. Qed.
Print Assumptions C12_framing.

Theorem C12_whole_nal_once : forall frs sofar,
  ends_here frs = true -> sofar ++ nal_bytes frs <> [] ->
  exists pre, spec_run sofar false [] frs =
              pre ++ (sofar ++ nal_bytes frs, true) :: spec_run [] false [] (after_end frs)
              /\ Forall (fun v => snd v = false) pre.
Proof. exact buffer_only_one_complete. Qed.
Print Assumptions C12_whole_nal_once.

Theorem C12_escape_clean : forall p, has_sc (escape p) = false /\ unescape (escape p) = Some p.
Proof. intros p. split; [apply escape_no_startcode|apply unescape_escape]. Qed.
Print Assumptions C12_escape_clean.

(* The pipeline WITH its running context (Model/Driver.v: AnnexBReader::accumulate + a handler that parses every complete
   NAL - SPS, PPS, SEI, slice header - against the context built from the NALs before it; the model the correspondence
   check runs against the crate).  For any clean units (unit_ok, and free of the sequences unescape refuses - both hold
   of hdr :: escape p, C12_units_ok / C12_escape_clean), any framing, ANY partition into pushes and any starting context:
   the complete invocations are the units; what the handler prints is what it prints when every invocation is one
   contiguous buffer; the parse results of the complete NALs are those of parsing each unit alone, in order, each in the
   context left by its predecessors (alone_all); and the final context is that of alone_all. *)
Theorem C12_pipeline_context : forall units t cs ctx0 pre,
  Forall (fun u => unit_ok (snd u)) units -> (t = 0%nat \/ 3 <= t)%nat ->
  Forall (fun u => exists p, unescape (skipn 1 (snd u)) = Some p) units ->
  concat cs = annexb_encode units t ->
  let r := pipeline_run ctx0 [] pre (map APush cs ++ [AReset]) in
  exists invs,
    map inv_bytes (filter inv_complete invs) = map snd units /\
    snd r = (pre ++ fst (lines_of ctx0 (map contiguous invs)))%list /\
    complete_parses ctx0 invs = alone_all ctx0 (map snd units) /\
    ps_ctx (fst r) = snd (alone_all ctx0 (map snd units)).
Proof. exact pipeline_end_to_end. Qed.
Print Assumptions C12_pipeline_context.

(* the three folds of the pipeline model are one pass of the handler over the accumulator's invocations *)
Theorem C12_pipeline_fused : forall ops ctx0 pol pre,
  let invs := run_fragments acc_init pol (frs_of (all_calls AStart ops)) in
  snd (pipeline_run ctx0 pol pre ops) = (pre ++ fst (lines_of ctx0 invs))%list /\
  ps_ctx (fst (pipeline_run ctx0 pol pre ops)) = snd (complete_parses ctx0 invs).
Proof. exact pipeline_fused. Qed.
Print Assumptions C12_pipeline_fused.

(* non-vacuity of C12_pipeline_context's extra hypothesis, on the units of C12_ex below *)
Example C12_pipeline_ex :
  Forall (fun u : nat * list byte => exists p, unescape (skipn 1 (snd u)) = Some p)
         [(1%nat, [103; 66; 0; 0; 3; 1; 128]); (2%nat, [104; 206; 56; 128])].
Proof. repeat constructor; eexists; reflexivity. Qed.

(* The context after ANY chunked stream of clean units - valid, corrupt or foreign NALs alike - is the fold over the units of
   "parse this NAL alone against the context so far and store it if it is an accepted SPS / PPS" (ctx_after_unit =
   Driver.ctx_step on the units of type 7 / 8, the very function behind the context histories of C05, C06 and C19), whatever
   the partition into pushes: the C19 theorems (last writer wins, independence of ids) therefore speak about streams. *)
Theorem C12_stream_context : forall units t cs ctx0 pre,
  Forall (fun u => unit_ok (snd u)) units -> (t = 0%nat \/ 3 <= t)%nat ->
  Forall (fun u => exists p, unescape (skipn 1 (snd u)) = Some p) units ->
  concat cs = annexb_encode units t ->
  ps_ctx (fst (pipeline_run ctx0 [] pre (map APush cs ++ [AReset]))) = fold_left ctx_after_unit (map snd units) ctx0.
Proof. exact stream_context. Qed.
Print Assumptions C12_stream_context.

(* ... for instance, last writer wins holds of streams: an SPS NAL that parses alone to x, followed by units none of which is
   accepted as an SPS with x's id, leaves x under that id after the whole chunked stream - whatever came before it *)
Theorem C12_stream_sps_last_writer_wins : forall before n b r after x t cs ctx0 pre,
  let u := b :: r in
  let units := (before ++ (n, u) :: after)%list in
  Forall (fun v => unit_ok (snd v)) units -> (t = 0%nat \/ 3 <= t)%nat ->
  Forall (fun v => exists p, unescape (skipn 1 (snd v)) = Some p) units ->
  nal_header_new b = Some b -> nal_unit_type_id b = 7 -> sps_from_bits (nal_bitsrc u) = OK x ->
  Forall (fun v => forall y, sps_from_bits (nal_bitsrc (snd v)) = OK y -> seq_parameter_set_id y <> seq_parameter_set_id x) after ->
  concat cs = annexb_encode units t ->
  sps_by_id (ps_ctx (fst (pipeline_run ctx0 [] pre (map APush cs ++ [AReset])))) (seq_parameter_set_id x) = Some x.
Proof. exact stream_sps_last_writer_wins. Qed.
Print Assumptions C12_stream_sps_last_writer_wins.

(* ... and of PPSs (a PPS is parsed against the context the units before it left) *)
Theorem C12_stream_pps_last_writer_wins : forall before n b r after p t cs ctx0 pre,
  let u := b :: r in
  let units := (before ++ (n, u) :: after)%list in
  Forall (fun v => unit_ok (snd v)) units -> (t = 0%nat \/ 3 <= t)%nat ->
  Forall (fun v => exists q, unescape (skipn 1 (snd v)) = Some q) units ->
  nal_header_new b = Some b -> nal_unit_type_id b = 8 ->
  pps_from_bits (fold_left ctx_after_unit (map snd before) ctx0) (nal_bitsrc u) = OK p ->
  Forall (fun v => forall c' y, pps_from_bits c' (nal_bitsrc (snd v)) = OK y -> pic_parameter_set_id y <> pic_parameter_set_id p) after ->
  concat cs = annexb_encode units t ->
  pps_by_id (ps_ctx (fst (pipeline_run ctx0 [] pre (map APush cs ++ [AReset])))) (pic_parameter_set_id p) = Some p.
Proof. exact stream_pps_last_writer_wins. Qed.
Print Assumptions C12_stream_pps_last_writer_wins.

(* From the structures to the context, through every layer at once: an SPS and a PPS referring to it, each encoded per
   7.3.2.1 / 7.3.2.2, completed by rbsp trailing bits, escaped (7.4.1), given the header bytes 0x67 / 0x68, serialised as
   an Annex B stream (any start-code lengths / zero padding) and pushed in ANY pieces into the pipeline starting from any
   context of accepted SPSs, leave the context holding exactly those two structures (C04 + C05 + C02 + C15 + C08 + C01 + C19). *)
Theorem C12_stream_sps_pps : forall x lists k1 p plists k2 n1 n2 t cs ctx0 pre,
  let c1 := put_seq_param_set ctx0 x in
  wf_sps x lists -> ctx_sps_ok ctx0 -> wf_pps c1 p plists ->
  (k1 < 8)%nat -> (k2 < 8)%nat ->
  (8 | N.of_nat (length (enc_sps x lists ++ trailing_bits k1))) ->
  (8 | N.of_nat (length (enc_pps p plists ++ trailing_bits k2))) ->
  (t = 0%nat \/ 3 <= t)%nat ->
  concat cs = annexb_encode [(n1, nal_of_bits 103 (enc_sps x lists ++ trailing_bits k1));
                             (n2, nal_of_bits 104 (enc_pps p plists ++ trailing_bits k2))] t ->
  ps_ctx (fst (pipeline_run ctx0 [] pre (map APush cs ++ [AReset]))) = put_pic_param_set c1 p.
Proof. exact stream_sps_pps. Qed.
Print Assumptions C12_stream_sps_pps.

(* ... and a slice NAL after them (header byte with nal_unit_type 1 or 5, any slice data d ending in the rbsp stop bit): in
   any push partition the handler reports the three parses of the three structures - the slice header read against the
   context the two parameter sets left - and the context holds both (C06 joins the composition).  every hypothesis is met by
   C12_stream_slice_ex below. *)
Theorem C12_stream_sps_pps_slice : forall x lists k1 p plists k2 hdr pp sp h ab em d k3 n1 n2 n3 t cs ctx0 pre,
  let c1 := put_seq_param_set ctx0 x in
  let c2 := put_pic_param_set c1 p in
  let u1 := nal_of_bits 103 (enc_sps x lists ++ trailing_bits k1) in
  let u2 := nal_of_bits 104 (enc_pps p plists ++ trailing_bits k2) in
  let u3 := nal_of_bits hdr (enc_slice_header hdr pp sp h ab em ++ d ++ trailing_bits k3) in
  wf_sps x lists -> ctx_ok ctx0 -> wf_pps c1 p plists -> wf_slice c2 hdr pp sp h ab ->
  (k1 < 8)%nat -> (k2 < 8)%nat -> (k3 < 8)%nat ->
  (8 | N.of_nat (length (enc_sps x lists ++ trailing_bits k1))) ->
  (8 | N.of_nat (length (enc_pps p plists ++ trailing_bits k2))) ->
  (8 | N.of_nat (length (enc_slice_header hdr pp sp h ab em ++ d ++ trailing_bits k3))) ->
  hdr <> 0 -> nal_header_new hdr = Some hdr -> (nal_unit_type_id hdr = 1 \/ nal_unit_type_id hdr = 5) ->
  any_one (List.tl (d ++ trailing_bits k3)) = true ->
  (t = 0%nat \/ 3 <= t)%nat ->
  concat cs = annexb_encode [(n1, u1); (n2, u2); (n3, u3)] t ->
  let r := pipeline_run ctx0 [] pre (map APush cs ++ [AReset]) in
  ps_ctx (fst r) = c2 /\
  exists invs,
    snd r = (pre ++ fst (lines_of ctx0 (map contiguous invs)))%list /\
    complete_parses ctx0 invs =
      ([("sps:ok:" ++ ShowSps.show_sps x)%string; ("pps:ok:" ++ ShowPps.show_pps p)%string;
        ("slice:ok:" ++ ShowSlice.show_slice_header h ++ ";" ++ Show.show_N (pps_seq_parameter_set_id pp) ++ ";" ++ Show.show_N (pic_parameter_set_id pp))%string], c2).
Proof. exact stream_sps_pps_slice. Qed.
Print Assumptions C12_stream_sps_pps_slice.

(* why no condition on the bytes is needed: the stop bit of the rbsp trailing bits lies in the last RBSP byte, so a NAL made
   of a non-zero header byte and the escaped RBSP is non-empty, ends in a non-zero byte and contains no 00 00 0x (x <= 2) *)
Theorem C12_nal_of_bits_unit_ok : forall hdr b k, hdr <> 0 -> (k < 8)%nat -> (8 | N.of_nat (length (b ++ trailing_bits k))) ->
  unit_ok (nal_of_bits hdr (b ++ trailing_bits k)).
Proof. exact nal_of_bits_unit_ok. Qed.
Print Assumptions C12_nal_of_bits_unit_ok.

(* non-vacuity: every hypothesis of C12_stream_sps_pps holds of the High 4:4:4 SPS and the slice-group / scaling-list PPS
   of C05_ex (2 and 3 trailing zero bits complete the bytes), so the theorem applies to every partition of their stream *)
Definition C12_ex_sp := mk_sps 244 0 40 3 (mk_chroma_info YUV444 false 2 2 false None) 4 PocTypeTwo 4 false 3 2 Frames true None None.
Definition C12_ex_p :=
  mk_pps 7 3 true false (Some (SgExplicit 2 [0; 1; 2; 2; 1; 0; 0; 0; 1; 1; 2; 2])) 3 0 true 2 (-30)%Z 4%Z (-12)%Z true false true
         (Some (mk_ext true (Some (mk_psm [SlUseDefault; SlNotPresent; SlNotPresent; SlNotPresent; SlNotPresent; SlNotPresent]
                                          (Some [SlNotPresent; SlNotPresent; SlNotPresent; SlNotPresent; SlNotPresent; SlNotPresent]))) 12%Z)).
Definition C12_ex_plists := Some [Some [(-8)%Z]; None; None; None; None; None; None; None; None; None; None; None].
Example C12_stream_ex :
  wf_sps C12_ex_sp None /\ ctx_sps_ok ctx_empty /\ wf_pps (put_seq_param_set ctx_empty C12_ex_sp) C12_ex_p C12_ex_plists /\
  (8 | N.of_nat (length (enc_sps C12_ex_sp None ++ trailing_bits 2))) /\
  (8 | N.of_nat (length (enc_pps C12_ex_p C12_ex_plists ++ trailing_bits 3))) /\
  unit_ok (nal_of_bits 103 (enc_sps C12_ex_sp None ++ trailing_bits 2)) /\
  unit_ok (nal_of_bits 104 (enc_pps C12_ex_p C12_ex_plists ++ trailing_bits 3)).
Proof.
  split; [|split; [exact ctx_empty_ok|split; [|split; [exists 9; vm_compute; reflexivity|split; [exists 16; vm_compute; reflexivity|]]]]].
  - unfold wf_sps, u32v, C12_ex_sp. cbn -[N.lt N.le Z.le Z.lt N.pow]. repeat split; try lia; try reflexivity; try discriminate.
  - unfold wf_pps, C12_ex_p, C12_ex_plists, C12_ex_sp.
    cbn [pic_parameter_set_id pps_seq_parameter_set_id slice_groups num_ref_idx_l0_default_active_minus1
      num_ref_idx_l1_default_active_minus1 weighted_bipred_idc pic_init_qp_minus26 pic_init_qs_minus26 chroma_qp_index_offset extension].
    split; [lia|]. split; [lia|]. eexists. split; [vm_compute; reflexivity|].
    cbn [chroma_info_ bit_depth_luma_minus8 wf_slice_group wf_pps_ext transform_8x8_mode_flag pic_scaling_matrix_
         second_chroma_qp_index_offset psm4x4 psm8x8 length].
    repeat match goal with |- _ /\ _ => apply conj end; try lia; try (vm_compute; reflexivity); try discriminate.
    + repeat constructor; lia.
    + repeat constructor; lia.
  - split; (split; [discriminate|split; [vm_compute; discriminate|vm_compute; reflexivity]]).
Qed.

(* non-vacuity of C12_stream_sps_last_writer_wins: the SPS unit of C12_stream_ex followed by its PPS unit (not accepted as an SPS) *)
Example C12_stream_lww_ex :
  let u1 := nal_of_bits 103 (enc_sps C12_ex_sp None ++ trailing_bits 2) in
  let u2 := nal_of_bits 104 (enc_pps C12_ex_p C12_ex_plists ++ trailing_bits 3) in
  nal_header_new 103 = Some 103 /\ nal_unit_type_id 103 = 7 /\ sps_from_bits (nal_bitsrc u1) = OK C12_ex_sp /\
  Forall (fun v : nat * list byte => forall y, sps_from_bits (nal_bitsrc (snd v)) = OK y ->
                                     seq_parameter_set_id y <> seq_parameter_set_id C12_ex_sp) [(2%nat, u2)].
Proof.
  cbv zeta. split; [reflexivity|split; [reflexivity|split; [vm_compute; reflexivity|]]].
  constructor; [|constructor]. intros y H. cbn [snd] in H. vm_compute in H. discriminate H.
Qed.

(* non-vacuity of C12_stream_sps_pps_slice: the SPS, PPS and SP slice header of C06_ex (weight table, list modifications,
   adaptive marking), 3 / 7 / 0 trailing zero bits and three bits of slice data meet every hypothesis *)
Definition C12_sl_sp := mk_sps 100 0 40 0 (mk_chroma_info YUV420 false 0 0 false None) 3 (PocTypeZero 2) 4 false 19 8 (Fields false) true None None.
Definition C12_sl_pp := mk_pps 4 0 true true None 0 0 true 0 0%Z (-3)%Z 0%Z true false true None.
Definition C12_sl_h :=
  mk_sh 17 (mk_st FamSP true) None 77 FpBottom None (Some (PlFrame 33)) (Some 1) None (Some (NraP 1))
        (RplP [ModSubtract 2; ModLongTermRef 0]) (Some (mk_pwt 5 (Some 4) [Some (mk_pw 3 (-1)); None] [[mk_pw 1 1; mk_pw (-2) 0]; []]))
        (Some (DrAdaptive [MmShortTermUnused 1; MmAllUnused; MmShortTermUsedForLongTerm 2 3])) (Some 2) (-4)%Z (Some true) (Some 30) 2.
Example C12_stream_slice_ex :
  let c1 := put_seq_param_set ctx_empty C12_sl_sp in
  let c2 := put_pic_param_set c1 C12_sl_pp in
  let d := [true; false; true] in
  wf_sps C12_sl_sp None /\ ctx_ok ctx_empty /\ wf_pps c1 C12_sl_pp None /\ wf_slice c2 65 C12_sl_pp C12_sl_sp C12_sl_h (3, -2)%Z /\
  (8 | N.of_nat (length (enc_sps C12_sl_sp None ++ trailing_bits 3))) /\
  (8 | N.of_nat (length (enc_pps C12_sl_pp None ++ trailing_bits 7))) /\
  (8 | N.of_nat (length (enc_slice_header 65 C12_sl_pp C12_sl_sp C12_sl_h (3, -2)%Z (true, false) ++ d ++ trailing_bits 0))) /\
  nal_header_new 65 = Some 65 /\ nal_unit_type_id 65 = 1 /\ any_one (List.tl (d ++ trailing_bits 0)) = true.
Proof.
  cbv zeta.
  split; [|split; [|split; [|split; [|split; [exists 9; vm_compute; reflexivity|split; [exists 4; vm_compute; reflexivity|
    split; [exists 19; vm_compute; reflexivity|split; [reflexivity|split; reflexivity]]]]]]]].
  - unfold wf_sps, u32v, C12_sl_sp. cbn -[N.lt N.le Z.le Z.lt N.pow]. repeat split; try lia; try reflexivity; try discriminate.
  - split.
    + intros id sp H. unfold sps_by_id, ctx_empty in H. cbn in H. unfold Context.map_get in H. destruct (N.to_nat id); discriminate.
    + intros id p H. unfold pps_by_id, ctx_empty in H. cbn in H. unfold Context.map_get in H. destruct (N.to_nat id); discriminate.
  - unfold wf_pps, C12_sl_pp, C12_sl_sp.
    cbn [pic_parameter_set_id pps_seq_parameter_set_id slice_groups num_ref_idx_l0_default_active_minus1
      num_ref_idx_l1_default_active_minus1 weighted_bipred_idc pic_init_qp_minus26 pic_init_qs_minus26 chroma_qp_index_offset extension].
    split; [lia|]. split; [lia|]. eexists. split; [vm_compute; reflexivity|].
    cbn [chroma_info_ bit_depth_luma_minus8 wf_slice_group wf_pps_ext transform_8x8_mode_flag pic_scaling_matrix_
         second_chroma_qp_index_offset psm4x4 psm8x8 length].
    repeat match goal with |- _ /\ _ => apply conj end; try lia; try (vm_compute; reflexivity); try discriminate.
  - unfold wf_slice, C12_sl_h, C12_sl_pp, C12_sl_sp. cbv zeta.
    repeat match goal with |- _ /\ _ => apply conj end;
      cbn -[N.lt N.le Z.le Z.lt N.pow]; try reflexivity; try discriminate; try (unfold u32v; lia).
    + exists 33. split; [reflexivity|]. change (2 ^ (2 + 4)) with 64. lia.
    + exists 1. split; [reflexivity|unfold u32v; lia].
    + repeat constructor; cbn [mod_val]; unfold u32v; lia.
    + split; [reflexivity|]. eexists. split; [reflexivity|].
      unfold wf_pwt, wf_pw, u32v, s32v. cbn -[N.lt N.le Z.le Z.lt].
      repeat match goal with |- _ /\ _ => apply conj end; try lia; try reflexivity.
      * exists 4. split; [reflexivity|lia].
      * constructor; [right; exists (mk_pw 1 1), (mk_pw (-2) 0); cbn -[Z.le]; repeat split; lia|].
        constructor; [left; reflexivity|constructor].
      * repeat constructor; cbn -[Z.le]; lia.
    + change (nal_ref_idc 65 =? 0) with false. cbv iota. eexists. split; [reflexivity|].
      cbn [wf_drm]. split; [discriminate|]. repeat constructor; cbn [wf_mmco]; unfold u32v; lia.
    + exists 2. split; [reflexivity|unfold u32v; lia].
    + exists true. reflexivity.
    + exists 30. split; [reflexivity|lia].
    + split; [lia|]. intros _. unfold s32v. cbn [fst snd]. lia.
Qed.

(* non-vacuity: two units, a 4-byte and a 3-byte start code with extra leading zeros, 3 trailing zeros,
   pushed in 1-, 2- and 5-byte pieces that cut start codes and units *)
Example C12_ex :
  let units := [(1%nat, [103; 66; 0; 0; 3; 1; 128]); (2%nat, [104; 206; 56; 128])] in
  let cs := [[0]; [0; 0]; [1; 103; 66; 0]; [0]; [3; 1]; [128; 0; 0; 0; 0]; [1; 104; 206; 56; 128; 0]; [0; 0]] in
  Forall (fun u => unit_ok (snd u)) units /\ concat cs = annexb_encode units 3 /\
  let '(st, k) := pushes AStart cs in
  map inv_bytes (filter inv_complete (run_fragments acc_init [] (frs_of (k ++ snd (reset st))))) = map snd units.
Proof.
  cbv zeta. split; [|split; [reflexivity|vm_compute; reflexivity]].
  repeat constructor; try discriminate.
Qed.
