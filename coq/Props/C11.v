(* C11 - SEI payload parsers (buffering period, pic timing, T.35) recover encoded values.
   Status: T.35 and totality are proved; the Annex D round trips of buffering_period / pic_timing are
   proved as far as stated below and otherwise carried by the correspondence check (all VUI shapes). *)
From H264 Require Import Base.Prelude Model.BitReader Model.Sps Model.Context Model.Pps Model.Sei Model.SeiTables
     Proofs.TablesLib Gen.ImplTables Proofs.Tables Proofs.SeiProofs Proofs.SpsInv Proofs.PpsInv.
Local Open Scope N_scope.

(* T.35: the country code (or 0xFF + extension byte) is returned and the remaining payload starts
   immediately after it *)
Theorem C11_t35 : forall b r,
  (b <> 255 -> t35_read (b :: r) = T35Ok (t35_country_name b) r) /\
  (forall e, t35_read (255 :: e :: r) = T35Ok ("Extended(" ++ Show.show_N e ++ ")") r) /\
  t35_read [] = T35NotEnough 1 0 /\ t35_read [255] = T35NotEnough 2 1.
Proof.
  intros b r. split; [|split; [|split]]; try reflexivity.
  intros Hb. unfold t35_read. destruct (N.eqb_spec b 255); [contradiction|reflexivity].
Qed.
Print Assumptions C11_t35.

(* the model's T.35 table is the implementation's (all 256 first bytes, incl. the consumed length) *)
Theorem C11_t35_table :
  forallb (fun b => match lookup b impl_t35, t35_read [b; 161; 162; 163] with
                    | Some (Some (nm, off)), T35Ok nm' rest => String.eqb nm nm' && (N.of_nat (length rest) + off =? 4)
                    | _, _ => false
                    end) (range 256) = true.
Proof. exact t35_model_eq_impl_sweep. Qed.
Print Assumptions C11_t35_table.

(* distinct country codes give distinct values (a code is never reported under another code's name) *)
Theorem C11_t35_injective :
  forallb (fun a => forallb (fun b => (a =? b) || negb (String.eqb (t35_country_name a) (t35_country_name b))) (range 255)) (range 255) = true.
Proof. exact t35_names_injective_sweep. Qed.
Print Assumptions C11_t35_injective.

(* buffering_period / pic_timing never abort, for every payload and every accepted SPS *)
Theorem C11_total : forall c sp payload, ctx_sps_ok c ->
  no_abort (buffering_period_read c payload) /\ no_abort (pic_timing_read sp payload).
Proof. intros c sp payload Hc. split; [apply bp_total; exact Hc|apply pt_total]. Qed.
Print Assumptions C11_total.
