(* C11 - SEI payload parsers (buffering period, pic timing, T.35) recover encoded values.
   enc_bp / enc_pt (Spec/SyntaxSei.v) are D.1.2 / D.1.3 written as encoders relative to the SPS whose VUI
   selects presences and widths; wf_bp / wf_pt the conditions for a conforming payload.  Proved: both round
   trips for every accepted SPS, T.35, totality. *)
From H264 Require Import Base.Prelude Base.Bits Model.BitReader Model.Sps Model.Context Model.Pps Model.Sei Model.SeiTables
     Spec.SyntaxSps Spec.SyntaxSei
     Proofs.TablesLib Gen.ImplTables Proofs.Tables Proofs.SeiProofs Proofs.SpsInv Proofs.PpsInv Proofs.SeiRoundtrip Proofs.SeiConverse.
Local Open Scope N_scope.

(* buffering_period: for every context of accepted SPS and every payload whose bits are the encoding of a
   conforming structure (one delay pair per CPB for each HRD present, of the width that HRD declares)
   followed by the SEI payload alignment, parsing returns exactly that structure *)
Theorem C11_bp_roundtrip : forall c sp b payload pad,
  ctx_sps_ok c -> sps_by_id c (seq_parameter_set_id sp) = Some sp -> wf_bp sp b ->
  bits_of_bytes payload = enc_bp sp b ++ pad -> sei_pad_ok pad ->
  buffering_period_read c payload = OK b.
Proof. exact bp_roundtrip. Qed.
Print Assumptions C11_bp_roundtrip.

(* pic_timing: CPB/DPB delays whenever either HRD is present, with the widths of the NAL HRD if present and
   else of the VCL HRD; pic_struct and exactly NumClockTS optional clock timestamps with every optional
   part (full or flagged seconds/minutes/hours) and a signed time offset of the declared width *)
Theorem C11_pt_roundtrip : forall sp t fulls payload pad,
  inv_sps sp -> wf_pt sp t fulls ->
  bits_of_bytes payload = enc_pt sp t fulls ++ pad -> sei_pad_ok pad ->
  pic_timing_read sp payload = OK t.
Proof. exact pt_roundtrip. Qed.
Print Assumptions C11_pt_roundtrip.

(* converses: every accepted payload is the encoding of the structure returned (relative to the SPS named by the
   coded id / given by the caller), followed by the SEI payload alignment *)
Theorem C11_bp_converse : forall c payload b, ctx_keyed_sps c -> buffering_period_read c payload = OK b ->
  exists sp pad, sps_by_id c (seq_parameter_set_id sp) = Some sp /\
    bits_of_bytes payload = enc_bp sp b ++ pad /\ sei_pad_ok pad.
Proof. exact bp_converse. Qed.
Print Assumptions C11_bp_converse.

Theorem C11_pt_converse : forall sp payload t, pic_timing_read sp payload = OK t ->
  exists fulls pad, bits_of_bytes payload = enc_pt sp t fulls ++ pad /\ sei_pad_ok pad.
Proof. exact pt_converse. Qed.
Print Assumptions C11_pt_converse.

(* the signed time offset: two's complement on the declared width *)
Theorem C11_time_offset_signed : forall tol z, 0 < tol ->
  (- 2 ^ (Z.of_N tol - 1) <= z < 2 ^ (Z.of_N tol - 1))%Z ->
  sign_extend tol (Z.to_N (z mod 2 ^ Z.of_N tol)) = z /\ Z.to_N (z mod 2 ^ Z.of_N tol) < 2 ^ tol.
Proof. exact sign_extend_roundtrip. Qed.
Print Assumptions C11_time_offset_signed.

(* T.35: the country code (or 0xFF + extension byte) is returned and the remaining payload starts
   immediately after it *)
Theorem C11_t35 : forall b r,
  (b <> 255 -> t35_read (b :: r) = T35Ok (t35_country_name b) r) /\
  (forall e, t35_read (255 :: e :: r) = T35Ok ("Extended(" ++ Show.show_N e ++ ")") r) /\
  t35_read [] = T35NotEnough 1 0 /\ t35_read [255] = T35NotEnough 2 1.
Proof.
  intros b r. split; [|split; [|split]]; try reflexivity.
  intros Hb. unfold t35_read. destruct (N.eqb_spec b 255); [contradiction|reflexivity].
Qed.
Print Assumptions C11_t35.

(* the model's T.35 table is the implementation's (all 256 first bytes, incl. the consumed length) *)
Theorem C11_t35_table :
  forallb (fun b => match lookup b impl_t35, t35_read [b; 161; 162; 163] with
                    | Some (Some (nm, off)), T35Ok nm' rest => String.eqb nm nm' && (N.of_nat (length rest) + off =? 4)
                    | _, _ => false
                    end) (range 256) = true.
Proof. exact t35_model_eq_impl_sweep. Qed.
Print Assumptions C11_t35_table.

(* distinct country codes give distinct values (a code is never reported under another code's name) *)
Theorem C11_t35_injective :
  forallb (fun a => forallb (fun b => (a =? b) || negb (String.eqb (t35_country_name a) (t35_country_name b))) (range 255)) (range 255) = true.
Proof. exact t35_names_injective_sweep. Qed.
Print Assumptions C11_t35_injective.

(* buffering_period / pic_timing never abort, for every payload and every accepted SPS *)
Theorem C11_total : forall c sp payload, ctx_sps_ok c ->
  no_abort (buffering_period_read c payload) /\ no_abort (pic_timing_read sp payload).
Proof. intros c sp payload Hc. split; [apply bp_total; exact Hc|apply pt_total]. Qed.
Print Assumptions C11_total.

(* non-vacuity: an SPS with a VCL HRD only (2 CPBs, 5-bit initial delays, 9-bit CPB / 3-bit DPB delays,
   time_offset_length 5) and pic_struct_present; a pic_timing with pic_struct 3 (two clock timestamps: one
   with flagged seconds+minutes and a negative offset, one absent), 7 alignment bits *)
Example C11_ex :
  let hrd := mk_hrd 1 2 [mk_cpb 100 200 true; mk_cpb 7 0 false] 4 8 2 5 in
  let vui := mk_vui None OvUnspecified None None None None (Some hrd) (Some false) true None in
  let sp := mk_sps 66 0 30 0 chroma_info_default 4 PocTypeTwo 1 false 10 8 Frames true None (Some vui) in
  let c := mk_ct 1 true 4 false true 29 (SmhSM 59 7) (Some (-16)%Z) in
  let t := mk_pt (Some (300, 5)) (Some (3, [Some c; None])) in
  let b := mk_bp None (Some [(17, 31); (0, 1)]) in
  wf_pt sp t [false; false] /\ wf_bp sp b /\
  exists payload pad, bits_of_bytes payload = enc_pt sp t [false; false] ++ pad /\ sei_pad_ok pad /\
                      pic_timing_read sp payload = OK t.
Proof.
  cbv zeta. split; [|split].
  - unfold wf_pt. cbn -[N.lt N.le Z.le Z.lt N.pow Z.pow]. split.
    + split; [change (2 ^ (8 + 1)) with 512|change (2 ^ (2 + 1)) with 8]; lia.
    + eexists _, _. split; [reflexivity|]. split; [lia|]. split; [reflexivity|]. split; [reflexivity|].
      constructor; [|constructor; [exact I|constructor]].
      unfold wf_ct. cbn -[N.lt N.le Z.le Z.lt N.pow Z.pow].
      repeat match goal with |- _ /\ _ => apply conj end; try lia; try reflexivity;
        try (change (2 ^ (5 - 1))%Z with 16%Z; lia).
  - unfold wf_bp. cbn -[N.lt N.le Z.le Z.lt N.pow]. split; [exact I|]. split; [reflexivity|].
    change (2 ^ (4 + 1)) with 32. repeat constructor; cbn [fst snd]; lia.
  - exists [150; 83; 178; 17; 223; 113; 208; 64], [true; false; false; false; false; false; false]. split; [vm_compute; reflexivity|].
    split; [right; exists 6%nat; reflexivity|vm_compute; reflexivity].
Qed.
